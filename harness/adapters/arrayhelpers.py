"""E1/E2 adapter for ArrayHelpers.tla (C20): direct calls of the helpers of glue.utils.array."""
import itertools
import numpy as np

from harness.core import use_repo, Divergence

SYM = {1: 'a', 2: 'b', 3: 'c'}


def check_one(cfg, exp):
    from glue.utils import array as GA
    kind = cfg['kind']
    if kind == 'combine':
        n = cfg['n']
        v = slice(cfg['v']['b'], cfg['v']['e'], cfg['v']['s'])
        s = slice(cfg['s']['b'], cfg['s']['e'], cfg['s']['s'])
        want = sorted(exp['pos'])
        try:
            r = GA.combine_slices(v, s, n)
        except Exception as e:
            return ('combine_slices', want, 'raised %s: %s' % (type(e).__name__, e))
        nview = len(range(n)[v])
        got = list(range(nview))[r]
        if sorted(got) != want or len(set(got)) != len(got):
            return ('combine_slices', want, {'slice': [r.start, r.stop, r.step], 'positions': got})
        return None
    if kind == 'unbcast':
        shape = tuple(cfg['shape'])
        axes = set(a - 1 for a in cfg['axes'])
        base_shape = tuple(1 if k in axes else shape[k] for k in range(len(shape)))
        base = np.arange(int(np.prod(base_shape)), dtype=float).reshape(base_shape) + 1
        arr = np.broadcast_to(base, shape)
        u = GA.unbroadcast(arr)
        # an axis of length 1 has no stride information: unbroadcast may or may not collapse it (same either way)
        want = tuple(exp['shape'])
        if tuple(u.shape) != want:
            return ('unbroadcast_shape', list(want), list(u.shape))
        if not np.array_equal(np.broadcast_to(u, shape), arr):
            return ('unbroadcast_roundtrip', arr.tolist(), np.broadcast_to(u, shape).tolist())
        b = GA.broadcast_arrays_minimal(arr, np.broadcast_to(base.sum(), shape))
        if not np.array_equal(np.broadcast_to(b[0], shape), arr):
            return ('broadcast_arrays_minimal', arr.tolist(), np.asarray(b[0]).tolist())
        return None
    if kind == 'categ':
        vals = [SYM[v] for v in cfg['vals']]
        want_c = [SYM[v] for v in exp['cats']]
        want_i = list(exp['codes'])
        c = GA.categorical_ndarray(vals)
        got_c = [str(x) for x in c.categories]
        got_i = [int(x) for x in c.codes]
        if got_c != want_c:
            return ('categories', want_c, got_c)
        if got_i != want_i:
            return ('codes', want_i, got_i)
        if [got_c[i] for i in got_i] != vals:
            return ('categories[codes]', vals, [got_c[i] for i in got_i])
        U, I = GA.unique(np.array(vals))
        if [str(x) for x in U] != want_c or [int(x) for x in I] != want_i:
            return ('unique', [want_c, want_i], [[str(x) for x in U], [int(x) for x in I]])
        lk = GA.index_lookup(np.array(vals), np.array(want_c))
        if [int(x) for x in lk] != want_i:
            return ('index_lookup', want_i, [float(x) for x in lk])
        # lookups against a category list that LACKS some of the values (numbers and text): the position of the value in the
        # list, NaN for a value that is not listed
        for as_number in (True, False):
            conv = (lambda v: float(sorted(set(SYM.values())).index(v) * 2 + 1)) if as_number else (lambda v: v)
            data = np.array([conv(v) for v in vals])
            cats = sorted(set(conv(v) for v in vals))
            for drop in range(len(cats) + 1):
                items = [c for k, c in enumerate(cats) if k != drop]
                if not items:
                    continue
                lk = GA.index_lookup(data, np.array(items))
                want_lk = [float(items.index(x)) if x in items else float('nan') for x in data.tolist()]
                got_lk = [float(x) for x in np.asarray(lk, dtype=float)]
                if not all((a == b) or (a != a and b != b) for a, b in zip(got_lk, want_lk)) or len(got_lk) != len(want_lk):
                    return ('index_lookup_missing[%s]' % ('numbers' if as_number else 'text'), want_lk, got_lk)
        # the same values in every 2-d arrangement of the sequence and every memory layout: codes are positional, so
        # categories[codes] must reproduce the array element by element whatever the strides
        n = len(vals)
        for rows in range(1, n + 1):
            if n % rows:
                continue
            base = np.array(vals).reshape(rows, n // rows)
            layouts = {'C': base, 'F': np.asfortranarray(base), 'T': np.array(vals).reshape(n // rows, rows).T,
                       'strided': np.array(vals + vals).reshape(rows, 2 * (n // rows))[:, ::2] if n // rows >= 1 else base}
            for lname, arr in layouts.items():
                ref = [[str(v) for v in row] for row in np.asarray(arr).tolist()]
                cc = GA.categorical_ndarray(arr) if lname in ('C', 'F') else GA.categorical_ndarray(base if lname == 'T' and False else np.asarray(arr))
                if lname == 'T':
                    cc = GA.categorical_ndarray(np.array(vals).reshape(n // rows, rows)).T      # a transposed VIEW of a categorical array
                cats = [str(x) for x in cc.categories]
                codes = np.asarray(cc.codes)
                if cats != sorted(set(v for row in ref for v in row)):
                    return ('categories[%s %dx%d]' % (lname, rows, n // rows), sorted(set(v for row in ref for v in row)), cats)
                if codes.shape != np.shape(arr):
                    return ('codes_shape[%s %dx%d]' % (lname, rows, n // rows), list(np.shape(arr)), list(codes.shape))
                back = [[cats[int(i)] for i in row] for row in codes.tolist()]
                if back != ref:
                    return ('categories[codes][%s %dx%d]' % (lname, rows, n // rows), ref, back)
                U2, I2 = GA.unique(np.asarray(arr))
                back2 = [[str(U2[int(i)]) for i in row] for row in np.asarray(I2).reshape(np.shape(arr)).tolist()]
                if back2 != ref:
                    return ('unique[%s %dx%d]' % (lname, rows, n // rows), ref, back2)
        return None
    if kind == 'view_shape':
        from harness.adapters.views import concretise
        view = concretise(cfg['vcfg'], cfg.get('variant', 0))
        try:
            got = tuple(GA.view_shape(tuple(cfg['vcfg']['shape']), view))
        except Exception as e:
            return ('view_shape', list(exp['rshape']), 'raised %s: %s' % (type(e).__name__, e))
        if got != tuple(exp['rshape']):
            return ('view_shape', list(exp['rshape']), list(got))
        return None
    raise ValueError(kind)


def replay_chunk(items, extra):
    use_repo()
    out = []
    for it in items:
        r = check_one(it['cfg'], it['exp'])
        if r is not None:
            out.append(Divergence({'spec': 'ArrayHelpers', 'cfg': it['cfg'], 'exp': it['exp']}, 0, r[0], r[1], r[2],
                                  kind=r[0]).to_json())
    return {'div': out, 'steps': len(items), 'n': len(items)}


def record_chunks(max_len, max_dim):
    """Call iterate_chunks for every shape and every limit / chunk shape; return trace records."""
    use_repo()
    from glue.utils.array import iterate_chunks, find_chunk_shape
    recs = []
    # a zero-dimensional array (what a single-element view leaves) holds one element: exactly one, empty, chunk
    for n_max in (1, 2, 1000):
        ch = [[[s.start, s.stop] for s in sl] for sl in iterate_chunks((), n_max=n_max)]
        recs.append({'shape': [], 'limit': n_max, 'mode': 'n_max', 'chunks': ch, 'chunk_shape': []})
    for nd in range(1, max_dim + 1):
        for shape in itertools.product(range(1, max_len + 1), repeat=nd):
            size = int(np.prod(shape))
            for n_max in range(1, size + 2):
                ch = [[[s.start, s.stop] for s in sl] for sl in iterate_chunks(shape, n_max=n_max)]
                recs.append({'shape': list(shape), 'limit': n_max, 'mode': 'n_max', 'chunks': ch,
                             'chunk_shape': list(find_chunk_shape(shape, n_max))})
            for cs in itertools.product(*[range(1, s + 1) for s in shape]):
                ch = [[[s.start, s.stop] for s in sl] for sl in iterate_chunks(shape, chunk_shape=cs)]
                recs.append({'shape': list(shape), 'limit': int(np.prod(cs)), 'mode': 'chunk_shape', 'chunks': ch,
                             'chunk_shape': list(cs)})
    return recs
