"""E1 adapter for Collection.tla / Commands.tla: steps a real DataCollection (and Session) through a
behaviour and compares the projection of the real objects with what the specification requires."""
import numpy as np

from harness.core import use_repo, Divergence

NROW = 3
COLORS = {'c1': '#123456', 'c2': '#abcdef'}


def make_data(name):
    from glue.core import Data
    return Data(label=name, x=np.arange(NROW, dtype=float), y=np.arange(NROW, dtype=float) * 2)


def make_state(sel):
    from glue.core.subset import ElementSubsetState
    return ElementSubsetState(indices=sorted(int(r) for r in sel))


class World(object):
    """The real objects behind one behaviour."""

    def __init__(self, with_session=False):
        from glue.core import DataCollection
        from glue.core.session import Session
        self.dc = DataCollection()
        self.session = Session(data_collection=self.dc) if with_session else None
        self.data = {}          # name -> Data (ever created)
        self.gid = {}           # id(group object) -> spec id
        self.gobj = {}          # spec id -> group object
        self.blocks = []
        self.keep = []          # strong references

    def d(self, name):
        if name not in self.data:
            self.data[name] = make_data(name)
        return self.data[name]

    def name_of(self, dobj):
        for k, v in self.data.items():
            if v is dobj:
                return k
        return '?%s' % getattr(dobj, 'label', None)

    def note_new_groups(self, expected_ids):
        """Bind group objects that appeared in dc.subset_groups to the spec's fresh ids, in order."""
        fresh = [g for g in self.dc.subset_groups if id(g) not in self.gid]
        for g, i in zip(fresh, expected_ids):
            self.gid[id(g)] = i
            self.gobj[i] = g
            self.keep.append(g)
        return len(fresh)

    # -- collection actions -----------------------------------------------------------------
    def step(self, a):
        op = a['op']
        dc = self.dc
        if op == 'Append':
            dc.append(self.d(a['d']))
        elif op == 'Remove':
            dc.remove(self.d(a['d']))
        elif op == 'NewGroup':
            st = make_state(a['sel']) if a['sel'] else None
            g = dc.new_subset_group(subset_state=st)
            self.gid[id(g)] = a['g']
            self.gobj[a['g']] = g
            self.keep.append(g)
        elif op == 'RemoveGroup':
            dc.remove_subset_group(self.gobj[a['g']])
        elif op == 'SetState':
            self.gobj[a['g']].subset_state = make_state(a['sel'])
        elif op == 'SetLabel':
            self.gobj[a['g']].label = a['s']
        elif op == 'SetColor':
            self.gobj[a['g']].style.color = COLORS[a['s']]
        elif op == 'Merge':
            m = dc.merge(self.d(a['d']), self.d(a['e']))
            self.data[a['s']] = m
        elif op == 'Clear':
            dc.clear()
        elif op == 'DelayEnter':
            cm = dc.hub.delay_callbacks()
            cm.__enter__()
            self.blocks.append(cm)
        elif op == 'DelayExit':
            self.blocks.pop().__exit__(None, None, None)
        elif op == 'SaveRestore':
            self.save_restore()
        else:
            raise ValueError(op)

    def save_restore(self):
        from glue.core.state import GlueSerializer, GlueUnSerializer
        text = GlueSerializer(self.dc).dumps()
        dc2 = GlueUnSerializer.loads(text).object('__main__')
        names = [self.name_of(d) for d in self.dc.data]
        gids = [self.gid.get(id(g)) for g in self.dc.subset_groups]
        self.keep.append(self.dc)
        if len(dc2.data) != len(names) or len(dc2.subset_groups) != len(gids):
            self.dc = dc2
            return
        for n, dobj in zip(names, dc2.data):
            self.data[n] = dobj
        self.gid = {}
        for i, g in zip(gids, dc2.subset_groups):
            self.gid[id(g)] = i
            self.gobj[i] = g
        # datasets that were outside the collection belong to the old session (old hub): a later Append
        # of such a name builds a fresh dataset, as a user of the restored session would
        for n in list(self.data):
            if n not in names:
                self.keep.append(self.data.pop(n))
        self.dc = dc2
        if self.session is not None:
            self.session.data_collection = dc2

    def close(self):
        while self.blocks:
            try:
                self.blocks.pop().__exit__(None, None, None)
            except Exception:
                pass

    # -- projection -------------------------------------------------------------------------
    def gname(self, g):
        i = self.gid.get(id(g))
        if i is None:
            return 'unknown-group'
        return i

    def project(self):
        dc = self.dc
        live = [id(g) for g in dc.subset_groups]
        out = {'coll': [self.name_of(d) for d in dc.data],
               'groups': [self.gname(g) for g in dc.subset_groups],
               'dsub': {}, 'gsub': {}, 'masks': {}, 'labels': {}, 'colors': {}}
        for d in dc.data:
            n = self.name_of(d)
            bag = []
            for s in d.subsets:
                grp = getattr(s, 'group', None)
                if grp is None:
                    bag.append('free-subset')
                elif id(grp) in live:
                    bag.append(self.gname(grp))
                else:
                    bag.append('dead-group-%s' % self.gname(grp))
            out['dsub'][n] = sorted(bag, key=str)
        for g in dc.subset_groups:
            gi = self.gname(g)
            out['gsub'][gi] = sorted(self.name_of(s.data) for s in g.subsets)
            out['labels'][gi] = g.label
            out['colors'][gi] = g.style.color
        return out

    def member_checks(self, gstate, glabel, gcolor):
        """Every member of a live group shows the group's selection, label and colour.
        Returns None or (component, expected, actual)."""
        dc = self.dc
        live = {id(g): g for g in dc.subset_groups}
        for d in dc.data:
            for s in d.subsets:
                grp = getattr(s, 'group', None)
                if grp is None or id(grp) not in live:
                    continue
                gi = self.gname(grp)
                if gi not in gstate:
                    continue
                exp = sorted(int(r) for r in gstate[gi])
                try:
                    got = [int(i) for i in np.flatnonzero(s.to_mask())]
                except Exception as e:
                    got = 'raised %s' % type(e).__name__
                if got != exp:
                    return ('mask[g%s on %s]' % (gi, self.name_of(d)), exp, got)
                if s.label != grp.label:
                    return ('label[g%s on %s]' % (gi, self.name_of(d)), grp.label, s.label)
                if s.style.color != grp.style.color:
                    return ('color[g%s on %s]' % (gi, self.name_of(d)), grp.style.color, s.style.color)
        for g in dc.subset_groups:
            gi = self.gname(g)
            if glabel.get(gi):
                if g.label != glabel[gi]:
                    return ('grouplabel[g%s]' % gi, glabel[gi], g.label)
            if gcolor.get(gi):
                if g.style.color != COLORS[gcolor[gi]]:
                    return ('groupcolor[g%s]' % gi, COLORS[gcolor[gi]], g.style.color)
        return None


def _intkeys(d):
    return {int(k): v for k, v in d.items()}


def expected_obs(st):
    """What C06 requires for abstract state `st` (JSON form of the spec state)."""
    coll = list(st['coll'])
    groups = list(st['groups'])
    return {'coll': coll, 'groups': groups,
            'dsub': {d: sorted(groups, key=str) for d in coll},
            'gsub': {g: sorted(coll) for g in groups}}


def compare(world, st):
    """st: spec state after the step. Returns None or (component, expected, actual)."""
    exp = expected_obs(st)
    got = world.project()
    if got['coll'] != exp['coll']:
        return ('coll', exp['coll'], got['coll'])
    if got['groups'] != exp['groups']:
        return ('groups', exp['groups'], got['groups'])
    if st.get('delay', 0) != 0:
        return None                     # handler-maintained parts are required at quiescence only
    for d in exp['coll']:
        if got['dsub'].get(d) != exp['dsub'][d]:
            return ('dsub[%s]' % d, exp['dsub'][d], got['dsub'].get(d))
    for g in exp['groups']:
        if got['gsub'].get(g) != exp['gsub'][g]:
            return ('gsub[g%s]' % g, exp['gsub'][g], got['gsub'].get(g))
    gstate = {i + 1: v for i, v in enumerate(st['gstate'])}
    glabel = {i + 1: v for i, v in enumerate(st['glabel'])}
    gcolor = {i + 1: v for i, v in enumerate(st['gcolor'])}
    return world.member_checks(gstate, glabel, gcolor)


def replay_one(beh):
    """beh: {'steps': [{'act':..., 'st': {...}}]}. Returns None or divergence tuple."""
    w = World()
    try:
        for i, stp in enumerate(beh['steps']):
            try:
                w.step(stp['act'])
            except Exception as e:
                import traceback
                return (i, 'exception', 'no exception', '%s: %s' % (type(e).__name__, e),
                        traceback.format_exc()[-600:])
            r = compare(w, stp['st'])
            if r is not None:
                return (i, r[0], r[1], r[2], None)
    finally:
        w.close()
    return None


def replay_chunk(items, extra):
    use_repo()
    import gc
    out = []
    steps = 0
    for it in items:
        steps += len(it['steps'])
        res = replay_one(it)
        if res is not None:
            step, comp, exp, act, note = res
            kind = comp.split('[')[0]
            out.append(Divergence({'spec': 'Collection', 'steps': it['steps']}, step, comp, exp, act,
                                  kind=kind, note=note).to_json())
    gc.collect()
    return {'div': out, 'steps': steps, 'n': len(items)}
