"""E1 adapter for CollectionImpl.tla (C06, implementation-shaped): the two bookkeeping lists of the code - Data.subsets and
SubsetGroup.subsets - are compared with the I-spec after EVERY step, also while a hub delay block is open."""
import numpy as np

from harness.core import use_repo, Divergence


class World(object):
    def __init__(self):
        from glue.core import Data, DataCollection
        self.data = {n: Data(label=n, x=np.arange(3.0) + k) for k, n in enumerate(('d1', 'd2', 'd3'))}
        self.dc = DataCollection()
        self.groups = {}
        self.blocks = []

    def step(self, a):
        op, d, g = a['op'], a['d'], a['g']
        if op == 'Append':
            self.dc.append(self.data[d])
        elif op == 'Remove':
            self.dc.remove(self.data[d])
        elif op == 'NewGroup':
            self.groups[g] = self.dc.new_subset_group()
        elif op == 'RemoveGroup':
            self.dc.remove_subset_group(self.groups[g])
        elif op == 'DelayEnter':
            cm = self.dc.hub.delay_callbacks()
            cm.__enter__()
            self.blocks.append(cm)
        elif op == 'DelayExit':
            self.blocks.pop().__exit__(None, None, None)
        else:
            raise ValueError(op)

    def project(self):
        from glue.core.subset_group import GroupedSubset
        gid = {id(v): k for k, v in self.groups.items()}
        name = {id(v): k for k, v in self.data.items()}
        dsub = {n: [gid.get(id(s.group), 0) for s in d.subsets if isinstance(s, GroupedSubset)] for n, d in self.data.items()}
        gsub = {str(k): [name.get(id(s.data), '?') for s in g.subsets] for k, g in self.groups.items()}
        return {'coll': [name.get(id(d), '?') for d in self.dc.data], 'groups': sorted(gid[id(g)] for g in self.dc.subset_groups),
                'dsub': dsub, 'gsub': gsub, 'queue': len(self.dc.hub._queue), 'delay': self.dc.hub._delay_depth}

    def close(self):
        while self.blocks:
            try:
                self.blocks.pop().__exit__(None, None, None)
            except Exception:
                pass


def replay_one(beh):
    w = World()
    try:
        for i, stp in enumerate(beh['steps']):
            a, st = stp['act'], stp['st']
            try:
                w.step(a)
            except Exception as e:
                import traceback
                return (i, 'exception[%s]' % a['op'], 'no exception', '%s: %s' % (type(e).__name__, str(e)[:200]), traceback.format_exc()[-400:])
            p = w.project()
            if p['coll'] != st['coll']:
                return (i, 'coll', st['coll'], p['coll'], 'after %s' % a['op'])
            if p['groups'] != st['groups']:
                return (i, 'groups', st['groups'], p['groups'], 'after %s' % a['op'])
            if p['delay'] != st['delay']:
                return (i, 'hub._delay_depth', st['delay'], p['delay'], 'after %s' % a['op'])
            for d, want in st['dsub'].items():
                if sorted(p['dsub'].get(d, [])) != sorted(want):
                    return (i, 'Data.subsets[%s]' % d, sorted(want), sorted(p['dsub'].get(d, [])), 'after %s (delay %d)' % (a['op'], st['delay']))
            for g, want in st['gsub'].items():
                if g in p['gsub'] and sorted(p['gsub'][g]) != sorted(want):
                    return (i, 'SubsetGroup.subsets[%s]' % g, sorted(want), sorted(p['gsub'][g]), 'after %s (delay %d)' % (a['op'], st['delay']))
            # the queue holds the collection messages of the spec (and possibly subset messages of the code: at least as many)
            if st['delay'] == 0 and p['queue'] != 0:
                return (i, 'hub._queue', 0, p['queue'], 'messages left in the queue with no delay block open')
            if st['delay'] > 0 and p['queue'] < st['queue']:
                return (i, 'hub._queue', 'at least %d queued messages' % st['queue'], p['queue'], 'after %s' % a['op'])
    finally:
        w.close()
    return None


def replay_chunk(items, extra):
    use_repo()
    import warnings
    warnings.simplefilter('ignore')
    out = []
    steps = 0
    for it in items:
        steps += len(it['steps'])
        r = replay_one(it)
        if r is not None:
            out.append(Divergence({'spec': 'CollectionImpl', 'steps': it['steps']}, r[0], r[1], r[2], r[3],
                                  kind='impl:%s' % r[1].split('[')[0], note=r[4]).to_json())
    return {'div': out, 'steps': steps, 'n': len(items)}
