"""E1 adapter for Commands.tla: real Session + CommandStack stepped through do/undo/redo words."""
import numpy as np

from harness.core import use_repo, Divergence
from harness.adapters.collection import World, make_state, NROW


def mode_fn(name):
    from glue.core import edit_subset_mode as E
    return {'Replace': E.ReplaceMode, 'And': E.AndMode, 'Or': E.OrMode, 'Xor': E.XorMode,
            'AndNot': E.AndNotMode, 'New': E.NewMode}[name]


class CWorld(World):
    def __init__(self, max_undo):
        World.__init__(self, with_session=True)
        from glue.core import command
        self.command = command
        command.MAX_UNDO = max_undo
        self.stack = self.session.command_stack
        self.esm = self.session.edit_subset_mode

    def make_cmd(self, c):
        cm = self.command
        k = c['k']
        if k == 'AddData':
            return cm.AddData(data=self.d(c['d']))
        if k == 'RemoveData':
            return cm.RemoveData(data=self.d(c['d']))
        if k == 'ApplySubsetState':
            kw = {}
            if c['ov'] != 'none':
                kw['override_mode'] = mode_fn(c['ov'])
            return cm.ApplySubsetState(data_collection=self.dc, subset_state=make_state(c['leaf']), **kw)
        if k == 'ApplyROI':
            leaf = c['leaf']
            esm, dc = self.esm, self.dc

            def apply_func(roi):
                esm.update(dc, make_state(leaf))
            return cm.ApplyROI(data_collection=self.dc, roi=None, apply_func=apply_func)
        raise ValueError(k)

    def step(self, a):
        op = a['op']
        if op == 'Do':
            before = set(id(g) for g in self.dc.subset_groups)
            self.stack.do(self.make_cmd(a['c']))
            self.bind_groups()
        elif op == 'Undo':
            self.stack.undo()
        elif op == 'Redo':
            self.stack.redo()
            self.bind_groups()
        elif op == 'SetMode':
            self.esm.mode = mode_fn(a['c']['ov'])
        elif op == 'SetEdit':
            self.esm.edit_subset = [self.gobj[g] for g in a['e']]
        elif op == 'SetupAppend':
            self.dc.append(self.d(a['c']['d']))
        elif op == 'SetupNewGroup':
            self.dc.new_subset_group(subset_state=make_state(a['c']['leaf']))
            self.bind_groups()
        else:
            raise ValueError(op)

    def bind_groups(self):
        """Give group objects that appeared the spec's next ids (ids are creation-ordered in the spec)."""
        for g in self.dc.subset_groups:
            if id(g) not in self.gid:
                i = len(self.gid) + 1
                self.gid[id(g)] = i
                self.gobj[i] = g
                self.keep.append(g)

    def project_session(self):
        dc = self.dc
        groups = list(dc.subset_groups)
        out = {'coll': sorted(self.name_of(d) for d in dc.data), 'ngroups': len(groups)}
        masks = []
        for g in groups:
            per = {}
            for d in dc.data:
                subs = [s for s in d.subsets if getattr(s, 'group', None) is g]
                if len(subs) != 1:
                    per[self.name_of(d)] = 'has %d subsets for this group' % len(subs)
                else:
                    try:
                        per[self.name_of(d)] = [int(i) for i in np.flatnonzero(subs[0].to_mask())]
                    except Exception as e:
                        per[self.name_of(d)] = 'raised %s' % type(e).__name__
            try:
                own = [int(i) for i in np.flatnonzero(g.subset_state.to_mask(_Probe.get()))]
            except Exception as e:
                own = 'raised %s' % type(e).__name__
            masks.append({'state': own, 'on': per})
        out['masks'] = masks
        edit = []
        for g in (self.esm.edit_subset or []):
            if g in groups:
                edit.append(groups.index(g))
            else:
                edit.append('group-not-in-collection')
        out['edit'] = edit
        cu, cr = self.stack.can_undo_redo()
        out['can_undo'] = cu
        out['can_redo'] = cr
        out['n_done'] = len(self.stack._command_stack)
        out['n_undone'] = len(self.stack._undo_stack)
        return out


class _Probe(object):
    """A free-standing dataset used to evaluate a group's own selection."""
    _d = None

    @classmethod
    def get(cls):
        if cls._d is None:
            from glue.core import Data
            cls._d = Data(label='probe', x=np.arange(NROW, dtype=float))
        return cls._d


def expected(st):
    groups = list(st['groups'])
    coll = sorted(st['coll'])
    masks = []
    for g in groups:
        rows = sorted(int(r) for r in st['gstate'][g - 1])
        masks.append({'state': rows, 'on': {d: rows for d in coll}})
    return {'coll': coll, 'ngroups': len(groups), 'masks': masks,
            'edit': [groups.index(g) if g in groups else 'group-not-in-collection' for g in st['edit']],
            'can_undo': len(st['done']) > 0, 'can_redo': len(st['undone']) > 0,
            'n_done': len(st['done']), 'n_undone': len(st['undone'])}


ORDER = ('coll', 'ngroups', 'masks', 'edit', 'n_done', 'n_undone', 'can_undo', 'can_redo')


def replay_one(beh):
    w = CWorld(beh.get('max_undo', 2))
    try:
        for i, stp in enumerate(beh['steps']):
            try:
                w.step(stp['act'])
            except Exception as e:
                import traceback
                return (i, 'exception', 'no exception', '%s: %s' % (type(e).__name__, e),
                        traceback.format_exc()[-500:])
            exp = expected(stp['st'])
            got = w.project_session()
            for k in ORDER:
                if exp[k] != got[k]:
                    return (i, k, exp[k], got[k], 'after %s' % stp['act']['op'])
    finally:
        w.close()
    return None


def replay_chunk(items, extra):
    use_repo()
    import gc
    out = []
    steps = 0
    for it in items:
        steps += len(it['steps'])
        res = replay_one(it)
        if res is not None:
            step, comp, exp, act, note = res
            out.append(Divergence({'spec': 'Commands', 'steps': it['steps'], 'max_undo': it.get('max_undo', 2)},
                                  step, comp, exp, act, kind=comp, note=note).to_json())
    gc.collect()
    return {'div': out, 'steps': steps, 'n': len(items)}
