"""E1 adapter for Coords.tla (C15): a real Data with AffineCoordinates for every integer affine map enumerated by TLC."""
import numpy as np

from harness.core import use_repo, Divergence


def check_one(cfg, exp):
    from glue.core import Data
    from glue.core.coordinates import AffineCoordinates
    n = cfg['n']
    shape = tuple(cfg['shape'])
    M = np.zeros((n + 1, n + 1))
    M[:n, :n] = np.array(cfg['M'], dtype=float)
    M[:n, n] = np.array(cfg['T'], dtype=float)
    M[n, n] = 1.0
    coords = AffineCoordinates(M)
    d = Data(v=np.zeros(shape), coords=coords)
    wids = d.world_component_ids
    pids = d.pixel_component_ids
    if len(wids) != n:
        return ('world_count', n, len(wids))
    views = [None, tuple([slice(0, 1)] + [slice(None)] * (n - 1)), tuple([slice(None)] * (n - 1) + [slice(1, None)]),
             tuple([0] * (n - 1) + [slice(None)]), tuple([-1] + [slice(None)] * (n - 1)), tuple([slice(None)] * (n - 1) + [-1]),
             tuple(np.array([0, s - 1]) for s in shape)]
    grids = np.meshgrid(*[np.arange(s) for s in shape], indexing='ij')
    for k in range(n):
        want = np.array(exp['world'][k], dtype=float).reshape(shape)
        for v in views:
            try:
                got = d[wids[k]] if v is None else d[wids[k], v]
            except Exception as e:
                return ('world[%d]' % k, 'values', 'raised %s: %s (view %r)' % (type(e).__name__, e, v))
            w = want if v is None else want[v]
            if np.shape(got) != np.shape(w) or not np.array_equal(np.asarray(got, dtype=float), w):
                return ('world[%d]' % k, np.asarray(w).tolist(), np.asarray(got).tolist(), 'view %r' % (v,))
        # depends exactly on the axes the spec says: constant along the others
    # automatically created links
    for link in d.coordinate_links:
        to = link.get_to_id()
        try:
            got = np.asarray(link.compute(d), dtype=float)
        except Exception as e:
            return ('link[%s]' % to.label, 'values', 'raised %s: %s' % (type(e).__name__, e))
        wk = [k for k in range(n) if wids[k] is to]
        pk = [k for k in range(n) if pids[k] is to]
        if wk:
            want = np.array(exp['world'][wk[0]], dtype=float).reshape(shape)
            if got.shape != want.shape or not np.array_equal(got, want):
                return ('pixel2world_link[%d]' % wk[0], want.tolist(), got.tolist())
        elif pk:
            want = grids[pk[0]].astype(float)
            if got.shape != want.shape or not np.allclose(got, want, rtol=0, atol=1e-9):
                return ('world2pixel_link[%d]' % pk[0], want.tolist(), got.tolist())
    # direct calls of the transformation agree with the attributes
    pix = [g.astype(float) for g in grids][::-1]
    world = coords.pixel_to_world_values(*pix)
    if n == 1:
        world = [world]
    for k in range(n):
        want = np.array(exp['world'][k], dtype=float).reshape(shape)
        if not np.array_equal(np.asarray(world[n - 1 - k]), want):
            return ('pixel_to_world_values[%d]' % k, want.tolist(), np.asarray(world[n - 1 - k]).tolist())
    back = coords.world_to_pixel_values(*world)
    if n == 1:
        back = [back]
    for j in range(n):
        if not np.allclose(back[j], pix[j], rtol=0, atol=1e-9):
            return ('roundtrip[%d]' % j, pix[j].tolist(), np.asarray(back[j]).tolist())
    return None


def replay_chunk(items, extra):
    use_repo()
    out = []
    for it in items:
        r = check_one(it['cfg'], it['exp'])
        if r is not None:
            out.append(Divergence({'spec': 'Coords', 'cfg': it['cfg'], 'exp': it['exp']}, 0, r[0], r[1], r[2],
                                  kind=r[0].split('[')[0], note=r[3] if len(r) > 3 else None).to_json())
    return {'div': out, 'steps': len(items), 'n': len(items)}
