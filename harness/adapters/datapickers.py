"""E1 adapter for DataPickers.tla (C18 part 3): DataCollectionComboHelper and ManualDataComboHelper on a real collection."""
import numpy as np

from harness.core import use_repo, Divergence


class World(object):
    def __init__(self):
        from glue.core import Data, DataCollection
        from glue.core.state_objects import State
        from glue.core.data_combo_helper import DataCollectionComboHelper, ManualDataComboHelper
        from echo import SelectionCallbackProperty

        class S(State):
            cdata = SelectionCallbackProperty()
            mdata = SelectionCallbackProperty()
        self.data = {n: Data(label=n, a=np.array([1.0, 2.0, 3.0]) + k) for k, n in enumerate(('d1', 'd2', 'd3'))}
        self.dc = DataCollection()
        self.state = S()
        self.chelper = DataCollectionComboHelper(self.state, 'cdata', self.dc)
        self.mhelper = ManualDataComboHelper(self.state, 'mdata', self.dc)
        self.blocks = []

    def name(self, d):
        for k, v in self.data.items():
            if v is d:
                return k
        return '?'

    def step(self, a):
        op, d, x = a['op'], a['d'], a['x']
        if op == 'Append':
            self.dc.append(self.data[d])
        elif op == 'Remove':
            self.dc.remove(self.data[d])
        elif op == 'ManualAppend':
            self.mhelper.append_data(self.data[d])
        elif op == 'ManualRemove':
            self.mhelper.remove_data(self.data[d])
        elif op == 'Relabel':
            self.data[d].label = x
        elif op == 'SelectC':
            self.state.cdata = self.data[d]
        elif op == 'SelectM':
            self.state.mdata = self.data[d]
        elif op == 'DelayEnter':
            cm = self.dc.hub.delay_callbacks()
            cm.__enter__()
            self.blocks.append(cm)
        elif op == 'DelayExit':
            self.blocks.pop().__exit__(None, None, None)
        else:
            raise ValueError(op)

    def project(self):
        S = type(self.state)
        out = {}
        for prop, key in (('cdata', 'c'), ('mdata', 'm')):
            ch = list(getattr(S, prop).get_choices(self.state))
            sel = getattr(self.state, prop)
            disp = getattr(S, prop).get_display_func(self.state)
            out[key] = ([self.name(c) for c in ch], None if sel is None else self.name(sel),
                        [disp(c) if disp is not None else None for c in ch], [c.label for c in ch])
        return out

    def close(self):
        while self.blocks:
            try:
                self.blocks.pop().__exit__(None, None, None)
            except Exception:
                pass


def replay_one(beh):
    w = World()
    try:
        for i, stp in enumerate(beh['steps']):
            a, st = stp['act'], stp['st']
            try:
                w.step(a)
            except Exception as e:
                import traceback
                return (i, 'exception[%s]' % a['op'], 'no exception', '%s: %s' % (type(e).__name__, str(e)[:200]), traceback.format_exc()[-400:])
            if st['delay'] != 0:
                continue
            p = w.project()
            for key, want_ch, want_sel in (('c', st['cchoices'], st['csel']), ('m', st['mchoices'], st['msel'])):
                ch, sel, disp, labels = p[key]
                if ch != want_ch:
                    return (i, 'choices[%s]' % key, want_ch, ch, 'after %s' % a['op'])
                if not want_ch:
                    if sel is not None:
                        return (i, 'selection[%s]' % key, None, sel, 'nothing to choose from')
                elif sel not in want_ch:
                    return (i, 'selection[%s]' % key, 'one of %s' % want_ch, sel, 'after %s' % a['op'])
                elif want_sel != '?' and sel != want_sel:
                    return (i, 'selection_kept[%s]' % key, want_sel, sel, 'the selected dataset is still a choice but the selection changed')
                if disp != labels:
                    return (i, 'display[%s]' % key, labels, disp, 'after %s' % a['op'])
    finally:
        w.close()
    return None


def replay_chunk(items, extra):
    use_repo()
    import warnings
    warnings.simplefilter('ignore')
    out = []
    steps = 0
    for it in items:
        steps += len(it['steps'])
        r = replay_one(it)
        if r is not None:
            out.append(Divergence({'spec': 'DataPickers', 'steps': it['steps']}, r[0], r[1], r[2], r[3],
                                  kind='%s:datapicker' % r[1].split('[')[0], note=r[4]).to_json())
    return {'div': out, 'steps': steps, 'n': len(items)}
