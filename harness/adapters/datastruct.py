"""E1 adapter for DataStruct.tla: one real Data object (optionally inside a DataCollection) stepped through
mutation histories with valid and invalid arguments; after each call the component list, the structural
clauses and the hub announcements are compared with the specification."""
import numpy as np

from harness.core import use_repo, Divergence

SHAPES = {'s1': (2, 3), 's2': (3, 2)}
DEPS = {'x': ('a',), 'y': ('a', 'b'), 'z': ('x',)}
BASE = {'a': 1.0, 'b': 10.0, 'c': 100.0, 'n1': 1000.0, 'd1': 300.0, 'd2': 400.0}


def values(name, shape, bump=0.0):
    n = int(np.prod(shape))
    return (np.arange(n, dtype=float) + BASE.get(name.rstrip('2r'), 5.0) + bump).reshape(shape)


class DWorld(object):
    def __init__(self):
        from glue.core import Data, DataCollection
        from glue.core.hub import HubListener
        from glue.core.message import Message
        self.shape = 's1'
        self.data = Data(label='L1', a=values('a', SHAPES['s1']))
        self.dc = DataCollection()
        self.names = {}            # id(cid) -> spec name  (main / derived)
        self.keep = []
        self.cid = {'a': self.data.id['a']}
        self.names[id(self.cid['a'])] = 'a'
        self.keep.append(self.cid['a'])
        self.log = []
        self.bump = 0.0
        self.coords_obj = {}
        world = self

        class Rec(HubListener):
            def notify(self, msg):
                world.log.append(msg)

        self.rec = Rec()
        self.dc.hub.subscribe(self.rec, Message, handler=self.rec.notify)

    # ------------------------------------------------------------------------------------
    def name_of(self, cid):
        d = self.data
        for i, p in enumerate(d.pixel_component_ids):
            if p is cid:
                return 'p%d' % (i + 1)
        for i, w in enumerate(d.world_component_ids):
            if w is cid:
                return 'w%d' % (i + 1)
        return self.names.get(id(cid), '?' + cid.label)

    def coords(self, kind):
        from glue.core.coordinates import IdentityCoordinates, AffineCoordinates
        if kind == 'none':
            return None
        if kind == 'identity':
            return IdentityCoordinates(n_dim=2)
        m = np.array([[2.0, 0.0, 1.0], [0.0, 3.0, -1.0], [0.0, 0.0, 1.0]])
        return AffineCoordinates(m)

    def make_link(self, n):
        from glue.core.component_link import ComponentLink
        from glue.core.component_id import ComponentID
        ins = [self.cid[i] for i in DEPS[n]]
        if n == 'x':
            return ins[0] + 1            # BinaryComponentLink
        if n == 'y':
            return ComponentLink(ins, ComponentID('y'), using=lambda p, q: p + 2 * q)
        return ins[0] * 2

    def step(self, a):
        """Returns the exception class name raised by the call, or None."""
        from glue.core import Data
        from glue.core.component_id import ComponentID
        d = self.data
        op, n, m = a['op'], a['n'], a['m']
        self.log = []
        self.world_before = list(d.world_component_ids)
        try:
            if op == 'Attach':
                self.dc.append(d)
            elif op == 'AddMain':
                self.bind(n, d.add_component(values(n, d.shape), n))
            elif op == 'AddMainBadShape':
                d.add_component(np.zeros((5,)), n)
            elif op == 'ReAddValues':
                self.bump += 1
                d.add_component(values(n, d.shape, self.bump), self.cid[n])
            elif op == 'AddDerived':
                comp = d.add_component_link(self.make_link(n), n)
                self.bind(n, comp.link.get_to_id())
            elif op == 'Remove':
                d.remove_component(self.cid[n])
            elif op == 'RemoveAbsent':
                ghost = self.cid.get(n) or ComponentID(n)
                self.keep.append(ghost)
                d.remove_component(ghost)
            elif op == 'Reorder':
                order = list(d.components)
                if n == 'rotate':
                    order = order[1:] + order[:1]
                elif n == 'reverse':
                    order = order[::-1]
                elif n == 'short':
                    order = order[:-1]
                elif n == 'foreign':
                    order = order[:-1] + [ComponentID('foreign')]
                elif n == 'repeat':
                    order = order[::-1] + order[-1:]          # every attribute, one of them twice: not a permutation
                elif n == 'repeat_same':
                    order = order + order[:1]                 # the current order followed by a repeated attribute
                d.reorder_components(order)
            elif op == 'UpdateId':
                new = ComponentID(m)
                old = self.cid[n]
                d.update_id(old, new)
                del self.cid[n]
                self.bind(m, new)
                self.replaced = (old, new)
            elif op == 'UpdateIdAbsent':
                ghost = ComponentID(n)
                self.keep.append(ghost)
                d.update_id(ghost, ComponentID(n + 'x'))
            elif op == 'Rename':
                self.cid[n].label = m
            elif op == 'AddDup':
                src = self.by_name(m)
                self.bind(n, d.add_component(values(n, d.shape), src.label))
            elif op == 'UpdateValues':
                self.bump += 1
                d.update_components({self.cid[n]: values(n, d.shape, self.bump)})
            elif op == 'UpdateValuesBadShape':
                d.update_components({self.cid[n]: np.zeros((7,))})
            elif op == 'UpdateFrom':
                self.bump += 1
                shape = SHAPES[self.shape]
                if n == 'newshape':
                    self.shape = 's2' if self.shape == 's1' else 's1'
                    shape = SHAPES[self.shape]
                other = Data(label=d.label)
                other.coords = d.coords
                for cid in d.main_components:
                    nm = self.name_of(cid)
                    if n == 'drop' and nm == m:
                        continue
                    other.add_component(values(nm, shape, self.bump), cid.label)
                if n == 'drop':
                    other.add_component(values('n1', shape, self.bump), 'n1')
                d.update_values_from_data(other)
                if n == 'drop':
                    self.bind('n1', d.id['n1'])
            elif op == 'SetCoords':
                d.coords = self.coords(n)
            elif op == 'SetLabel':
                d.label = n
            else:
                raise ValueError(op)
        except (ValueError, TypeError) as e:
            if op in ('AddMainBadShape', 'UpdateValuesBadShape') or (op == 'Reorder' and n in ('short', 'foreign', 'repeat', 'repeat_same')):
                return type(e).__name__
            raise
        return None

    def by_name(self, name):
        d = self.data
        if name in self.cid:
            return self.cid[name]
        if name.startswith('p'):
            return d.pixel_component_ids[int(name[1:]) - 1]
        if name.startswith('w'):
            return d.world_component_ids[int(name[1:]) - 1]
        raise KeyError(name)

    def closure(self, m):
        s = {m}
        while True:
            t = s | {d for d, ins in DEPS.items() if set(ins) & s}
            if t == s:
                return s
            s = t

    def bind(self, name, cid):
        self.cid[name] = cid
        self.names[id(cid)] = name
        self.keep.append(cid)

    # ------------------------------------------------------------------------------------
    def announcements(self):
        from glue.core import message as M
        spec, gen, other = [], set(), []
        for msg in self.log:
            t = type(msg)
            if t is M.DataAddComponentMessage:
                spec.append(['add', self.ann_name(msg.component_id)])
            elif t is M.DataRemoveComponentMessage:
                spec.append(['remove', self.ann_name(msg.component_id, removed=True)])
            elif t is M.DataRenameComponentMessage:
                spec.append(['rename', self.ann_name(msg.component_id)])
            elif t is M.DataReorderComponentMessage:
                spec.append(['reorder', '-'])
            elif t is M.ComponentReplacedMessage:
                spec.append(['replaced', self.names.get(id(msg.old), '?')[:1] if False else self.old_name(msg.old)])
                gen.add('ComponentsChanged')
            elif t is M.ComponentsChangedMessage:
                gen.add('ComponentsChanged')
            elif t is M.NumericalDataChangedMessage:
                gen.add('NumericalDataChanged')
            elif t is M.DataUpdateMessage and msg.attribute == 'label':
                gen.add('DataUpdate')
            else:
                other.append(t.__name__)
        return sorted(spec), gen, other

    def old_name(self, cid):
        n = self.names.get(id(cid), '?')
        return n

    def ann_name(self, cid, removed=False):
        n = self.name_of(cid)
        if n.startswith('?') and removed:
            for i, w in enumerate(self.world_before):
                if w is cid:
                    return 'w%d' % (i + 1)
        return n

    def compare(self, stp, raised):
        st, ann = stp['st'], stp['ann']
        d = self.data
        if ann['raises'] and raised is None:
            return ('raises', 'an exception', 'returned normally')
        if not ann['raises'] and raised is not None:
            return ('raises', 'normal return', raised)
        got = [[self.name_of(c), self.kind_of(c)] for c in d.components]
        exp = [[c['n'], c['k']] for c in st['comps']]
        if got != exp:
            return ('components', exp, got)
        if d.label != st['label']:
            return ('label', st['label'], d.label)
        if tuple(d.shape) != SHAPES[st['shape']]:
            return ('shape', list(SHAPES[st['shape']]), list(d.shape))
        r = self.structure(st)
        if r is not None:
            return r
        if not st['hub']:
            return None
        spec, gen, other = self.announcements()
        if ann['quiet']:
            if self.log:
                return ('announce_quiet', 'no announcement', [type(m).__name__ for m in self.log])
            return None
        exp_spec = sorted([list(x) for x in ann['spec']])
        if stp['act']['op'] == 'Attach':
            return None
        if spec != exp_spec:
            return ('announce_specific', exp_spec, spec)
        missing = sorted(set(ann['gen']) - gen)
        if missing:
            return ('announce_generic', sorted(ann['gen']), sorted(gen))
        return None

    def kind_of(self, cid):
        d = self.data
        if any(cid is p for p in d.pixel_component_ids):
            return 'pixel'
        if any(cid is w for w in d.world_component_ids):
            return 'world'
        if any(cid is c for c in d.derived_components):
            return 'derived'
        return 'main'

    def structure(self, st):
        """Clauses that do not depend on the history."""
        d = self.data
        comps = d.components
        if len(set(id(c) for c in comps)) != len(comps):
            return ('unique_ids', 'unique', 'duplicate identifiers')
        if len(d.pixel_component_ids) != d.ndim:
            return ('pixel_per_dim', d.ndim, len(d.pixel_component_ids))
        want_world = d.ndim if d.coords is not None else 0
        if len(d.world_component_ids) != want_world:
            return ('world_per_dim', want_world, len(d.world_component_ids))
        for c in comps:
            try:
                arr = d[c]
            except Exception as e:
                return ('evaluable[%s]' % self.name_of(c), 'array of the dataset shape', 'raised %s: %s' % (type(e).__name__, e))
            if tuple(arr.shape) != tuple(d.shape):
                return ('component_shape[%s]' % self.name_of(c), list(d.shape), list(arr.shape))
        for name, want in sorted(st.get('lookup', {}).items()):
            try:
                label = self.by_name(name).label
            except (KeyError, IndexError):
                continue
            f = d.find_component_id(label)
            got = 'none' if f is None else self.name_of(f)
            if got != want:
                return ('lookup[%s]' % label, want, got)
        if d.find_component_id('no-such-attribute') is not None:
            return ('lookup[absent]', None, 'something')
        return None


def replay_one(beh):
    w = DWorld()
    for i, stp in enumerate(beh['steps']):
        try:
            raised = w.step(stp['act'])
        except Exception as e:
            import traceback
            return (i, 'exception', 'no exception', '%s: %s' % (type(e).__name__, e), traceback.format_exc()[-700:])
        try:
            r = w.compare(stp, raised)
        except Exception as e:
            import traceback
            return (i, 'exception_in_projection', '-', '%s: %s' % (type(e).__name__, e), traceback.format_exc()[-700:])
        if r is not None:
            return (i, r[0], r[1], r[2], 'after %s %s' % (stp['act']['op'], stp['act']['n']))
    return None


def replay_chunk(items, extra):
    use_repo()
    import gc
    out = []
    steps = 0
    for it in items:
        steps += len(it['steps'])
        res = replay_one(it)
        if res is not None:
            step, comp, exp, act, note = res
            out.append(Divergence({'spec': 'DataStruct', 'steps': it['steps']}, step, comp, exp, act,
                                  kind=comp.split('[')[0], note=note).to_json())
    gc.collect()
    return {'div': out, 'steps': steps, 'n': len(items)}
