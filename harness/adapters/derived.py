"""E1 adapter for Derived.tla (C14, evaluation half): every expression tree becomes a derived attribute three ways
(arithmetic on identifiers, user function, parsed text) and is compared with element-wise scalar evaluation."""
import numpy as np

from harness.core import use_repo, Divergence
from harness import zoo

OPS = ('+', '-', '*', '/', '**')
F = [-2, 0, 1, 3, 4, 7]
I = [1, -1, 2, 0, 5, -3]
_W = {}


def world():
    if 'd' in _W:
        return _W
    from glue.core import Data
    from glue.core.coordinates import AffineCoordinates
    m = np.array([[3.0, 1.0, -2.0], [0.0, 1.0, 0.0], [0.0, 0.0, 1.0]])
    d = Data(label='expr', f=np.array(F, dtype=float).reshape(2, 3), i=np.array(I, dtype=float).reshape(2, 3),
             coords=AffineCoordinates(m))
    d['g'] = d.id['f'] * 2 + d.id['i']
    _W['d'] = d
    _W['cid'] = {'f': d.id['f'], 'i': d.id['i'], 'p0': d.pixel_component_ids[0], 'p1': d.pixel_component_ids[1],
                 'w1': d.world_component_ids[1], 'g': d.id['g']}
    _W['n'] = 0
    return _W


def parse(tree, pos=0):
    h = tree[pos]
    if h in OPS:
        a, p = parse(tree, pos + 1)
        b, p = parse(tree, p)
        return (h, a, b), p
    return h, pos + 1


def apply(op, a, b):
    if op == '+':
        return a + b
    if op == '-':
        return a - b
    if op == '*':
        return a * b
    if op == '/':
        return a / b
    return a ** b


def build(node, leaf):
    if isinstance(node, tuple):
        return apply(node[0], build(node[1], leaf), build(node[2], leaf))
    return leaf(node)


def tag_of(name):
    """The tag under which an attribute is referred to in a parsed text expression: labels as users write them - with dots,
    brackets, operators and spaces (some of them regular-expression metacharacters), one tag a 'wildcard version' of another."""
    pool = ['a.b', 'a_b', 'Pixel Axis 0 [y]', 'flux (a+b)', 'w*', 'x^2', 'p|q', 'plain']
    return pool[sum(ord(c) * (i + 1) for i, c in enumerate(name)) % len(pool)] + '#' + name


def text(node):
    if isinstance(node, tuple):
        return '(%s %s %s)' % (text(node[1]), node[0], text(node[2]))
    return node if node.isdigit() else '{%s}' % tag_of(node)


def attrs(node, acc):
    if isinstance(node, tuple):
        attrs(node[1], acc)
        attrs(node[2], acc)
    elif not node.isdigit() and node not in acc:
        acc.append(node)
    return acc


VIEWS = [None, (slice(0, 1),), (1,), (slice(None), slice(0, 3, 2)), (np.array([0, 1]), np.array([2, 0])),
         np.array([[True, False, True], [False, False, True]])]


def check_one(tree, exp):
    w = world()
    d, cid = w['d'], w['cid']
    node, _ = parse(tree)
    names = attrs(node, [])
    if not names:
        return None
    full = {k: np.asarray(d[c]) for k, c in cid.items() if k in names}
    # oracle: element by element, scalars only
    want = np.empty(6, dtype=float)
    with np.errstate(all='ignore'):
        for e in range(6):
            def leaf(x, e=e):
                return int(x) if x.isdigit() else full[x].reshape(-1)[e]
            try:
                want[e] = float(build(node, leaf))
            except (ZeroDivisionError, OverflowError, ValueError):
                return None          # outside numpy's own domain for these operand types
    want = want.reshape(2, 3)
    if exp['exact']:
        tl = np.array(exp['vals'], dtype=float).reshape(2, 3)
        if not zoo.same(want, tl):
            return ('oracle_disagreement', tl.tolist(), want.tolist())
    from glue.core.component_link import ComponentLink
    from glue.core.component_id import ComponentID
    from glue.core.parse import ParsedCommand, ParsedComponentLink
    variants = []
    with np.errstate(all='ignore'):
        try:
            expr = build(node, lambda x: int(x) if x.isdigit() else cid[x])
            if isinstance(expr, ComponentLink):
                variants.append(('arithmetic', expr))
        except Exception as e:
            return ('build_arithmetic', 'a link', 'raised %s: %s' % (type(e).__name__, e))
        def using(*arrs):
            m = dict(zip(names, arrs))
            return build(node, lambda x: int(x) if x.isdigit() else m[x])
        variants.append(('function', ComponentLink([cid[n] for n in names], ComponentID('fn'), using=using)))
        try:
            variants.append(('parsed', ParsedComponentLink(ComponentID('pc'), ParsedCommand(text(node), {tag_of(n): cid[n] for n in names}))))
        except Exception as e:
            return ('build_parsed', 'a link for %r' % text(node), 'raised %s: %s' % (type(e).__name__, e))
        for vname, link in variants:
            w['n'] += 1
            label = 'e%d' % w['n']
            try:
                comp = d.add_component_link(link, label)
                new = comp.link.get_to_id()
            except Exception as e:
                return ('add[%s]' % vname, 'accepted', 'raised %s: %s' % (type(e).__name__, e))
            try:
                for v in VIEWS:
                    try:
                        got = d[new] if v is None else d[new, v]
                    except Exception as e:
                        return ('evaluate[%s]' % vname, (want if v is None else want[v]).tolist(),
                                'raised %s: %s' % (type(e).__name__, e), 'view %r' % (v,))
                    wv = want if v is None else want[v]
                    g = np.asarray(got, dtype=float)
                    ok = zoo.same(g, wv) if exp['exact'] else (
                        np.shape(g) == np.shape(wv) and bool(np.allclose(g, wv, rtol=1e-12, atol=0, equal_nan=True)))
                    if not ok:
                        return ('values[%s]' % vname, np.asarray(wv).tolist(), np.asarray(got).tolist(), 'view %r' % (v,))
            finally:
                d.remove_component(new)
    return None


def replay_chunk(items, extra):
    use_repo()
    import warnings
    warnings.simplefilter('ignore')
    out = []
    n = 0
    for it in items:
        r = check_one(it['tree'], it['exp'])
        n += 1
        if r is not None:
            out.append(Divergence({'spec': 'Derived', 'tree': it['tree'], 'exp': it['exp']}, 0, r[0], r[1], r[2],
                                  kind=r[0], note=r[3] if len(r) > 3 else None).to_json())
    return {'div': out, 'steps': n * 3 * len(VIEWS), 'n': n}
