"""E1 adapter for Export.tla (C19): registered exporters -> file -> load_data -> session saved by reference -> restore."""
import os
import shutil
import tempfile
import numpy as np

from harness.core import use_repo, Divergence

VALUES = {'plain': {'float': [-1.5, float('nan'), 0.5, 2.5], 'int': [-2, 0, 7, 3], 'text': ['aa', 'b', 'cc', 'aa']},
          'edge': {'float': [float('inf'), -0.25, float('-inf'), 1e300], 'int': [-1, 32767, -32768, -1], 'text': ['x y', 'a,b', 'Zz', 'nan?']},
          # narrow storage types: float32 with a NaN, int16 with negative values
          'narrow': {'float': [-1.5, float('nan'), 0.5, 2.5], 'int': [-2, 0, 7, -300], 'text': ['aa', 'b', 'cc', 'aa']}}
DTYPES = {'narrow': {'float': 'float32', 'int': 'int16'}}
EXT = {'csv': 'csv', 'fits_table': 'fits', 'votable': 'xml', 'hdf5': 'hdf5', 'gridded_fits': 'fits'}
LABEL = {'csv': 'Comma-separated table', 'fits_table': 'FITS Table', 'votable': 'VO Table', 'hdf5': 'HDF5', 'gridded_fits': 'FITS (1 component/HDU)'}
NAMES = {'float': 'colf', 'int': 'coli', 'text': 'colt'}


def exporter(fmt):
    from glue.config import data_exporter
    for e in data_exporter.members:
        if e.label == LABEL[fmt]:
            return e.function
    raise KeyError(fmt)


def same_values(kind, got, want):
    got = np.asarray(got)
    if kind == 'text':
        g = [x.decode('ascii') if isinstance(x, bytes) else str(x) for x in got.reshape(-1)]
        return [s.strip() for s in g] == [str(x) for x in want]
    try:
        g = np.asarray(got, dtype=float).reshape(-1)
    except (TypeError, ValueError):
        return False
    w = np.asarray(want, dtype=float).reshape(-1)
    return g.shape == w.shape and bool(np.array_equal(g, w, equal_nan=True))


def check_one(cfg, exp):
    from glue.core import Data, DataCollection
    from glue.core.data_factories import load_data
    from glue.core.state import GlueSerializer, GlueUnSerializer
    shape = (4,) if cfg['shape'] == 'table' else (2, 2)
    V = VALUES[cfg.get('vals', 'plain')]
    DT = DTYPES.get(cfg.get('vals', 'plain'), {})
    cols = {'float': np.array(V['float'], dtype=DT.get('float', 'float64')).reshape(shape),
            'int': np.array(V['int'], dtype=DT.get('int', 'int64')).reshape(shape), 'text': np.array(V['text']).reshape(shape)}
    d = Data(label='src')
    for k in cfg['cols']:
        d.add_component(cols[k], NAMES[k])
    dc = DataCollection([d])
    obj = d
    keep = sorted(exp['keep'])
    if cfg['sub'] != 'none':
        from glue.core.subset import ElementSubsetState
        grp = dc.new_subset_group(subset_state=ElementSubsetState(indices=[k - 1 for k in keep]))
        obj = d.subsets[0]
    tmp = tempfile.mkdtemp(prefix='verif-export-')
    path = os.path.join(tmp, 'out.' + EXT[cfg['fmt']])
    try:
        try:
            exporter(cfg['fmt'])(path, obj)
        except Exception as e:
            if not exp['ok']:
                return None            # the format cannot represent this configuration: a loud failure is fine
            return ('export', 'a file', 'raised %s: %s' % (type(e).__name__, str(e)[:200]))
        if not exp['ok']:
            return None                # nothing is required of configurations outside the format's domain
        try:
            loaded = load_data(path)
        except Exception as e:
            return ('import', 'a dataset', 'raised %s: %s' % (type(e).__name__, str(e)[:200]))
        if isinstance(loaded, list):
            if len(loaded) != 1:
                # several datasets (e.g. one per HDU of different shape): accept if the components are spread over them in order
                comps = []
                for x in loaded:
                    comps += [(c.label, x[c]) for c in x.main_components]
            else:
                loaded = loaded[0]
        if not isinstance(loaded, list):
            comps = [(c.label, loaded[c]) for c in loaded.main_components]
        want_names = [NAMES[k] for k in exp['cols']]
        got_names = [n for n, _ in comps]
        if [n.lower() for n in got_names] != [n.lower() for n in want_names]:
            return ('components', want_names, got_names)
        if cfg['fmt'] != 'gridded_fits' and got_names != want_names:
            return ('component_names', want_names, got_names)
        for k, (n, arr) in zip(exp['cols'], comps):
            src = cols[k].reshape(-1)
            if exp['filtered']:
                want = [src[r - 1] for r in exp['rows']]
                if not same_values(k, arr, want):
                    return ('values[%s]' % k, [str(x) for x in want], [str(x) for x in np.asarray(arr).reshape(-1)])
            else:
                got = np.asarray(arr).reshape(-1)
                if got.shape != src.shape:
                    return ('shape[%s]' % k, list(src.shape), list(got.shape))
                for pos in range(len(src)):
                    if (pos + 1) in exp['keep']:
                        if not same_values(k, got[pos:pos + 1], src[pos:pos + 1]):
                            return ('pixel[%s]' % k, str(src[pos]), str(got[pos]), 'selected pixel %d' % pos)
                    elif k == 'float':
                        if not (float(got[pos]) != float(got[pos])):
                            return ('blank[%s]' % k, 'NaN', str(got[pos]), 'unselected pixel %d' % pos)
        # a session saved by reference to the file reloads the same values (every dataset the file yields)
        group = loaded if isinstance(loaded, list) else [loaded]
        dc2 = DataCollection(group)
        try:
            text = GlueSerializer(dc2, include_data=False).dumps()
            dc3 = GlueUnSerializer.loads(text).object('__main__')
        except Exception as e:
            return ('by_reference', 'a restored session', 'raised %s: %s' % (type(e).__name__, str(e)[:200]))
        if len(dc3) != len(group):
            return ('by_reference_count', len(group), len(dc3))
        for a, b in zip(group, dc3):
            if [c.label for c in a.main_components] != [c.label for c in b.main_components]:
                return ('by_reference_components', [c.label for c in a.main_components], [c.label for c in b.main_components])
            for c in a.main_components:
                x, y = np.asarray(a[c]), np.asarray(b[c.label])
                ok = np.array_equal(x, y, equal_nan=True) if x.dtype.kind in 'fiu' and y.dtype.kind in 'fiu' else [str(v) for v in x.reshape(-1)] == [str(v) for v in y.reshape(-1)]
                if not ok:
                    return ('by_reference_values[%s]' % c.label, x.tolist(), y.tolist())
    finally:
        shutil.rmtree(tmp, ignore_errors=True)
    return None


def replay_chunk(items, extra):
    use_repo()
    import warnings
    warnings.simplefilter('ignore')
    from glue.core.data_exporters import setup
    setup()
    out = []
    for it in items:
        r = check_one(it['cfg'], it['exp'])
        if r is not None:
            out.append(Divergence({'spec': 'Export', 'cfg': it['cfg'], 'exp': it['exp']}, 0, r[0], r[1], r[2],
                                  kind='%s:%s:%s' % (r[0].split('[')[0], it['cfg']['fmt'], it['cfg']['shape']), note=r[3] if len(r) > 3 else None).to_json())
    return {'div': out, 'steps': len(items), 'n': len(items)}
