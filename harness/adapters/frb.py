"""E1 adapter for Frb.tla (C16): compute_fixed_resolution_buffer on real linked datasets, with and without a cache id,
for every sequence of requests enumerated by TLC."""
import itertools
import numpy as np

from harness.core import use_repo, Divergence

_count = itertools.count()


def make_world(fr):
    from glue.core import Data, DataCollection
    from glue.core.component_link import ComponentLink
    A = Data(label='A', x=np.zeros(tuple(fr['ashape'])))
    dc = DataCollection([A])
    srcs = {}
    for name in ('b', 'b2'):
        s = fr[name]
        shape = tuple(s['shape'])
        n = int(np.prod(shape))
        B = Data(label=name, c1=np.arange(n, dtype=float).reshape(shape), c2=100.0 + np.arange(n, dtype=float).reshape(shape))
        dc.append(B)
        for j in range(len(shape)):
            sc, of = s['s'][j], s['o'][j]
            dc.add_link(ComponentLink([A.pixel_component_ids[s['pi'][j] - 1]], B.pixel_component_ids[j],
                                      using=(lambda x, sc=sc, of=of: sc * x + of),
                                      inverse=(lambda y, sc=sc, of=of: (y - of) / sc)))
        srcs['B' if name == 'b' else 'B2'] = B
    # a second reference frame of the same shape as A, linked to the sources by OTHER functions (shifted by one pixel):
    # used at the end of every behaviour to ask the last request once more in another frame under the same cache identifier
    A2 = Data(label='A2', x=np.zeros(tuple(fr['ashape'])))
    dc.append(A2)
    for name in ('b', 'b2'):
        s = fr[name]
        B = srcs['B' if name == 'b' else 'B2']
        for j in range(len(s['shape'])):
            sc, of = s['s'][j], s['o'][j]
            dc.add_link(ComponentLink([A2.pixel_component_ids[s['pi'][j] - 1]], B.pixel_component_ids[j],
                                      using=(lambda x, sc=sc, of=of: sc * x + of + 1),
                                      inverse=(lambda y, sc=sc, of=of: (y - of - 1) / sc)))
    srcs['__A2__'] = A2
    return A, dc, srcs


def conc_bounds(bd):
    out = []
    for it in bd:
        if it['k'] == 'scalar':
            v = it['v']
            out.append(v // 8 if v % 8 == 0 else v / 8.0)
        else:
            lo = it['lo'] / 8.0
            hi = (it['lo'] + (it['n'] - 1) * it['step']) / 8.0
            out.append((lo, hi, it['n']))
    return out


def want_array(what, exp, n):
    lin = np.array(exp['lin'], dtype=float)
    out = lin < 0
    if what == 'c1':
        w = np.where(out, np.nan, lin)
    elif what == 'c2':
        w = np.where(out, np.nan, 100.0 + lin)
    elif what == 's1':
        w = np.where(out, False, lin < n // 2).astype(bool)
    else:
        w = np.where(out, False, lin >= 2).astype(bool)
    return w.reshape(tuple(exp['shape']))


def replay_one(beh, bounds_table):
    from glue.core.fixed_resolution_buffer import compute_fixed_resolution_buffer, ARRAY_CACHE, PIXEL_CACHE
    fr = beh['frame']
    A, dc, srcs = make_world(fr)
    cache_id = 'verif-%d' % next(_count)
    states = {}
    try:
        for i, stp in enumerate(beh['steps']):
            r, exp = stp['req'], stp['exp']
            B = srcs[r['src']]
            n = B.size
            kw = {}
            if r['what'] in ('c1', 'c2'):
                kw['target_cid'] = B.id[r['what']]
            else:
                key = (r['src'], r['what'])
                if key not in states:
                    states[key] = (B.id['c1'] < n // 2) if r['what'] == 's1' else (B.id['c2'] >= 102.0)
                kw['subset_state'] = states[key]
            bounds = conc_bounds(bounds_table[r['bounds'] - 1])
            want = want_array(r['what'], exp, n)
            for mode in ('cached', 'uncached'):
                try:
                    got = compute_fixed_resolution_buffer(B, bounds, target_data=A, **kw,
                                                          **({'cache_id': cache_id} if mode == 'cached' else {}))
                except Exception as e:
                    import traceback
                    return (i, 'buffer[%s]' % mode, want.tolist(), 'raised %s: %s' % (type(e).__name__, e), traceback.format_exc()[-400:])
                got = np.asarray(got)
                if got.shape != want.shape:
                    return (i, 'shape[%s]' % mode, list(want.shape), list(got.shape), None)
                same = np.array_equal(got, want, equal_nan=True) if want.dtype != bool else np.array_equal(got.astype(bool), want)
                if not same:
                    return (i, 'buffer[%s]' % mode, want.tolist(), got.tolist(), 'request %r bounds %r' % (r, bounds))
        # the same cache identifier, another reference frame: the cached answer must be the uncached one
        if beh['steps']:
            A2 = srcs['__A2__']
            try:
                c = np.asarray(compute_fixed_resolution_buffer(B, bounds, target_data=A2, cache_id=cache_id, **kw))
                u = np.asarray(compute_fixed_resolution_buffer(B, bounds, target_data=A2, **kw))
            except Exception as e:
                return (len(beh['steps']) - 1, 'buffer[other frame]', 'an array', 'raised %s: %s' % (type(e).__name__, e), None)
            if c.shape != u.shape or not np.array_equal(c.astype(float), u.astype(float), equal_nan=True):
                return (len(beh['steps']) - 1, 'buffer[other frame, cached]', u.tolist(), c.tolist(),
                        'last request %r asked again with another reference dataset under the same cache identifier' % (r,))
    finally:
        ARRAY_CACHE.pop(cache_id, None)
        PIXEL_CACHE.pop(cache_id, None)
    return None


def replay_chunk(items, extra):
    use_repo()
    import warnings
    warnings.simplefilter('ignore')
    out = []
    steps = 0
    for it in items:
        steps += len(it['steps'])
        r = replay_one(it, extra['bounds'])
        if r is not None:
            out.append(Divergence({'spec': 'Frb', 'frame': it['frame'], 'steps': it['steps'], 'bounds': extra['bounds']},
                                  r[0], r[1], r[2], r[3], kind=r[1], note=r[4]).to_json())
    return {'div': out, 'steps': steps, 'n': len(items)}
