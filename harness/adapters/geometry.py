"""E1 adapter for Geometry.tla (C08): real ROI objects on the lattice; contains() is compared with the Inside set computed
by TLC everywhere except on the exact boundary, after every action and for several array layouts."""
import math
import numpy as np

from harness.core import use_repo, Divergence

U = 20.0
ANGLE = {'0': 0.0, 'q1': math.pi / 2, 'q2': math.pi, 'q3': 3 * math.pi / 2, 'q1p': math.pi / 2 + 1e-10,
         'q1m': math.pi / 2 - 1e-10, 'q2m': math.pi - 1e-10, '0p': 1e-10,
         'a345': math.atan2(4, 3), 'a345n': -math.atan2(4, 3), 'a345q': math.atan2(3, -4), 'a51213': math.atan2(12, 5)}
POLY = {
    'sq': [(-20, -20), (20, -20), (20, 20), (-20, 20)],
    'sqc': [(-20, -20), (20, -20), (20, 20), (-20, 20), (-20, -20)],
    'cross': [(10, 10), (10, 30), (-10, 30), (-10, 10), (-30, 10), (-30, -10), (-10, -10), (-10, -30), (10, -30), (10, -10),
              (30, -10), (30, 10)],
    'tri': [(-30, -20), (30, -20), (0, 40)],
}


def build(r):
    from glue.core import roi as R
    k = r['k']
    th = ANGLE[r['th']['name']]
    if k == 'rect':
        return R.RectangularROI(r['x0'] / U, r['x1'] / U, r['y0'] / U, r['y1'] / U, theta=th)
    if k == 'circle':
        return R.CircularROI(r['xc'] / U, r['yc'] / U, r['rx'] / U)
    if k == 'ellipse':
        return R.EllipticalROI(r['xc'] / U, r['yc'] / U, r['rx'] / U, r['ry'] / U, theta=th)
    if k == 'annulus':
        return R.CircularAnnulusROI(r['xc'] / U, r['yc'] / U, r['ry'] / U, r['rx'] / U)
    if k == 'xrange':
        return R.XRangeROI(r['x0'] / U, r['x1'] / U)
    if k == 'yrange':
        return R.YRangeROI(r['y0'] / U, r['y1'] / U)
    if k == 'poly':
        # built unrotated around its centroid, then rotated through the public API
        vx = [(r['xc'] + v[0]) / U for v in POLY[r['poly']]]
        vy = [(r['yc'] + v[1]) / U for v in POLY[r['poly']]]
        p = R.PolygonalROI(vx, vy)
        if th != 0.0:
            p.rotate_to(th)
        return p
    raise ValueError(k)


def lattice(grid, step):
    ax = np.arange(-grid, grid + 1) * step
    X, Y = np.meshgrid(ax, ax, indexing='ij')
    return ax, X, Y


def check(roi, st, grid, step, label):
    """Compare roi.contains over the lattice with the spec's inside/band sets, in several array layouts."""
    ax, X, Y = lattice(grid, step)
    inside = set((p[0], p[1]) for p in st['inside'])
    band = set((p[0], p[1]) for p in st['band'])
    want = np.zeros(X.shape, dtype=bool)
    free = np.zeros(X.shape, dtype=bool)
    idx = {v: i for i, v in enumerate(ax.tolist())}
    for (x, y) in inside:
        want[idx[x], idx[y]] = True
    for (x, y) in band:
        free[idx[x], idx[y]] = True
    xr, yr = X / U, Y / U
    layouts = [('2d', xr, yr),
               ('flat', xr.ravel(), yr.ravel()),
               ('broadcast', np.broadcast_to((ax / U)[:, None], X.shape), np.broadcast_to((ax / U)[None, :], X.shape)),
               ('fortran', np.asfortranarray(xr), np.asfortranarray(yr))]
    for name, xx, yy in layouts:
        try:
            got = np.asarray(roi.contains(xx, yy))
        except Exception as e:
            return ('contains[%s]' % label, 'boolean array', 'raised %s: %s (layout %s)' % (type(e).__name__, e, name))
        if got.shape != np.shape(xx):
            return ('contains_shape[%s]' % label, list(np.shape(xx)), list(got.shape))
        got = got.reshape(X.shape)
        bad = (got != want) & ~free
        if bad.any():
            i, j = np.argwhere(bad)[0]
            return ('contains[%s]' % label, bool(want[i, j]), bool(got[i, j]),
                    'point (%g, %g) layout %s; %d lattice points differ' % (ax[i] / U, ax[j] / U, name, int(bad.sum())))
    return None


def centre_of(r):
    if r['k'] == 'rect':
        return ((r['x0'] + r['x1']) / 2.0 / U, (r['y0'] + r['y1']) / 2.0 / U)
    return (r['xc'] / U, r['yc'] / U)


def replay_one(beh):
    from glue.core import roi as R
    from glue.core.state import GlueSerializer, GlueUnSerializer
    grid, step = beh['grid'], beh['step']
    r0 = beh['steps'][0]['roi']
    try:
        roi = build(r0)
    except Exception as e:
        return (0, 'build', 'a region', 'raised %s: %s' % (type(e).__name__, e), None)
    for i, stp in enumerate(beh['steps']):
        a, r = stp['act'], stp['roi']
        op = a['op']
        other = None
        try:
            if op == 'pick':
                pass
            elif op == 'MoveTo':
                roi.move_to(a['x'] / U, a['y'] / U)
            elif op == 'RotateTo':
                roi.rotate_to(ANGLE[a['a']])
            elif op == 'Copy':
                other = roi.copy()
            elif op == 'SaveRestore':
                other = GlueUnSerializer.loads(GlueSerializer(roi).dumps()).object('__main__')
            elif op == 'ToPolygon':
                if r['k'] in ('rect', 'poly'):
                    vx, vy = roi.to_polygon()
                    other = R.PolygonalROI(list(vx), list(vy))
            elif op == 'Transpose2':
                if r['k'] == 'rect':
                    other = roi.transpose().transpose()
            else:
                raise ValueError(op)
        except NotImplementedError:
            continue
        except Exception as e:
            import traceback
            return (i, 'exception[%s]' % op, 'no exception', '%s: %s' % (type(e).__name__, e), traceback.format_exc()[-400:])
        res = check(roi, stp, grid, step, op)
        if res is None and other is not None:
            res = check(other, stp, grid, step, op + ':result')
        if res is not None:
            return (i, res[0], res[1], res[2], res[3] if len(res) > 3 else None)
        if op in ('MoveTo', 'pick', 'RotateTo') and r['k'] in ('rect', 'circle', 'ellipse', 'annulus', 'poly'):
            try:
                c = roi.center()
            except Exception as e:
                return (i, 'center', list(centre_of(r)), 'raised %s: %s' % (type(e).__name__, e), None)
            w = centre_of(r)
            if abs(c[0] - w[0]) > 1e-9 or abs(c[1] - w[1]) > 1e-9:
                return (i, 'center', list(w), [float(c[0]), float(c[1])], 'after %s' % op)
    return None


def replay_chunk(items, extra):
    use_repo()
    import warnings
    warnings.simplefilter('ignore')
    out = []
    steps = 0
    for it in items:
        steps += len(it['steps'])
        r = replay_one(it)
        if r is not None:
            out.append(Divergence({'spec': 'Geometry', 'grid': it['grid'], 'step': it['step'], 'steps': it['steps']}, r[0], r[1], r[2], r[3],
                                  kind=r[1].split('[')[0] + ':' + it['steps'][0]['roi']['k'], note=r[4]).to_json())
    return {'div': out, 'steps': steps, 'n': len(items)}


def projected3d_check():
    """Projected3dROI.contains3d: integer projection matrices map the 3-d lattice onto the 2-d one; also forces several
    evaluation chunks (> 10^6 points)."""
    use_repo()
    from glue.core import roi as R
    rect = R.RectangularROI(-1.5, 1.5, -1.0, 1.0)
    ax = np.arange(-8, 9) * 0.5
    out = []
    mats = {'xy': [[1, 0, 0, 0], [0, 1, 0, 0], [0, 0, 1, 0], [0, 0, 0, 1]],
            'zy': [[0, 0, 1, 0], [0, 1, 0, 0], [1, 0, 0, 0], [0, 0, 0, 1]],
            'shear': [[1, 0, 1, 0], [0, 1, 0, 0.5], [0, 0, 1, 0], [0, 0, 0, 1]],
            'scaled_w': [[2, 0, 0, 0], [0, 2, 0, 0], [0, 0, 2, 0], [0, 0, 0, 2]]}
    X, Y, Z = np.meshgrid(ax, ax, ax[:5], indexing='ij')
    for name, m in mats.items():
        p = R.Projected3dROI(roi_2d=rect, projection_matrix=np.array(m, dtype=float))
        M = np.array(m, dtype=float)
        sx = (M[0, 0] * X + M[0, 1] * Y + M[0, 2] * Z + M[0, 3]) / M[3, 3]
        sy = (M[1, 0] * X + M[1, 1] * Y + M[1, 2] * Z + M[1, 3]) / M[3, 3]
        want = (sx > -1.5) & (sx < 1.5) & (sy > -1.0) & (sy < 1.0)
        free = (np.abs(np.abs(sx) - 1.5) < 1e-9) | (np.abs(np.abs(sy) - 1.0) < 1e-9)
        got = p.contains3d(X, Y, Z)
        if got.shape != X.shape or ((got != want) & ~free).any():
            out.append(('contains3d[%s]' % name, int(want.sum()), int(np.asarray(got).sum())))
        # chunking: tile above 10^6 elements
        reps = 1 + 1000000 // X.size
        Xt, Yt, Zt = (np.tile(a.ravel(), reps) for a in (X, Y, Z))
        gt = p.contains3d(Xt, Yt, Zt)
        wt = np.tile(want.ravel(), reps)
        ft = np.tile(free.ravel(), reps)
        if ((gt != wt) & ~ft).any():
            out.append(('contains3d_chunked[%s]' % name, int(wt.sum()), int(gt.sum())))
    # the other chunked evaluation: a region selection with a pretransform is evaluated in chunks of 10^6 elements; the
    # lattice is tiled above that size (1-d and 2-d datasets) and every tile must give the answer of the lattice
    from glue.core import Data
    from glue.core.subset import RoiSubsetState
    X2, Y2 = np.meshgrid(ax, ax, indexing='ij')
    regions = {'rect': (rect, (X2 > -1.5) & (X2 < 1.5) & (Y2 > -1.0) & (Y2 < 1.0),
                        (np.abs(np.abs(X2) - 1.5) < 1e-9) | (np.abs(np.abs(Y2) - 1.0) < 1e-9)),
               'circle': (R.CircularROI(0.5, 0.0, 2.25), (X2 - 0.5) ** 2 + Y2 ** 2 < 2.25 ** 2,
                          np.abs((X2 - 0.5) ** 2 + Y2 ** 2 - 2.25 ** 2) < 1e-9)}
    reps = 2 + 1000000 // X2.size
    for rname, (roi, want2, free2) in regions.items():
        for layout in ('1d', '2d'):
            xs, ys = np.tile(X2.ravel(), reps), np.tile(Y2.ravel(), reps)
            wt, ft = np.tile(want2.ravel(), reps), np.tile(free2.ravel(), reps)
            if layout == '2d':
                xs, ys, wt, ft = (a.reshape(reps, X2.size) for a in (xs, ys, wt, ft))
            d = Data(x=xs, y=ys)
            state = RoiSubsetState(xatt=d.id['x'], yatt=d.id['y'], roi=roi, pretransform=lambda u, v: (u, v))
            got = np.asarray(state.to_mask(d))
            if got.shape != wt.shape or ((got != wt) & ~ft).any():
                out.append(('pretransform_chunked[%s,%s]' % (rname, layout), int(wt.sum()), int(got.sum()) if got.shape == wt.shape else list(got.shape)))
    return out
