"""E1 adapter for Hub.tla: executes a behaviour (sequence of `act` records) against a real
glue Hub with real HubListeners whose handlers perform the nested calls the behaviour plans."""
from harness.core import use_repo, Divergence

API = ('Subscribe', 'Unsubscribe', 'UnsubscribeAll', 'Broadcast', 'DelayEnter', 'DelayExit',
       'IgnoreEnter', 'IgnoreExit')
SILENT = ('DelivDone', 'FlushNext', 'FlushDone', 'Init')


class _Stop(Exception):
    def __init__(self, step, component, expected, actual, note=None):
        self.args_ = (step, component, expected, actual, note)


def _classes():
    from glue.core.message import Message

    class M(Message):
        def __init__(self, mid, tag):
            Message.__init__(self, None)
            self.mid = mid
            self.vtag = tag

    class M1(M):
        pass

    class M2(M1):
        pass

    class M3(M):
        pass
    return {'M': M, 'M1': M1, 'M2': M2, 'M3': M3}


_CLS = None


def classes():
    global _CLS
    if _CLS is None:
        _CLS = _classes()
    return _CLS


class Runner(object):
    def __init__(self, plan):
        from glue.core.hub import Hub, HubListener
        self.plan = plan
        self.cursor = 0
        self.hub = Hub()
        self.cls = classes()
        self.exhausted = False
        self.log = []
        self.blocks = []       # open context managers (LIFO)
        self.nmsg = 0
        runner = self

        class L(HubListener):
            def __init__(self, name):
                self.name = name

            def handle(self, msg):
                runner.on_deliver(self.name, msg)

        self.listeners = {n: L(n) for n in ('L1', 'L2', 'L3')}

    # -- plan cursor ----------------------------------------------------------------------
    def skip_silent(self):
        while self.cursor < len(self.plan) and self.plan[self.cursor]['op'] in SILENT:
            self.cursor += 1

    def on_deliver(self, lname, msg):
        self.log.append([lname, msg.mid])
        if self.exhausted:
            return
        self.skip_silent()
        if self.cursor >= len(self.plan):
            self.exhausted = True          # beyond the horizon of this behaviour
            return
        a = self.plan[self.cursor]
        if a['op'] != 'Deliver' or a['l'] != lname or a['m'] != msg.mid:
            raise _Stop(self.cursor, 'delivery', _fmt(a), {'op': 'Deliver', 'l': lname, 'm': msg.mid},
                        'the hub invoked a handler the specification does not allow here')
        self.cursor += 1
        base = len(self.blocks)
        try:
            self.run_calls(in_handler=True)
        finally:
            # at the horizon (or on a divergence) a handler must not leave its blocks open
            while len(self.blocks) > base:
                self.exhausted = True
                try:
                    self.blocks.pop().__exit__(None, None, None)
                except _Stop:
                    pass

    def run_calls(self, in_handler):
        while True:
            self.skip_silent()
            if self.cursor >= len(self.plan):
                self.exhausted = True
                return
            a = self.plan[self.cursor]
            op = a['op']
            if op == 'HandlerReturn':
                if not in_handler:
                    raise _Stop(self.cursor, 'control', _fmt(a), 'top level', 'malformed plan')
                self.cursor += 1
                return
            if op == 'Deliver':
                raise _Stop(self.cursor, 'delivery', _fmt(a), None,
                            'the specification requires a delivery here but the hub made none')
            self.cursor += 1
            self.call(a)
            if self.exhausted:
                return

    def call(self, a):
        op = a['op']
        hub = self.hub
        if op == 'Subscribe':
            filt = {'all': (lambda m: True), 'none': (lambda m: False),
                    'tag': (lambda m: m.vtag == 1)}[a['f']]
            l = self.listeners[a['l']]
            hub.subscribe(l, self.cls[a['c']], handler=l.handle, filter=filt, priority=a['p'])
        elif op == 'Unsubscribe':
            hub.unsubscribe(self.listeners[a['l']], self.cls[a['c']])
        elif op == 'UnsubscribeAll':
            hub.unsubscribe_all(self.listeners[a['l']])
        elif op == 'Broadcast':
            self.nmsg += 1
            assert self.nmsg == a['m'], 'message numbering out of step'
            hub.broadcast(self.cls[a['c']](a['m'], a['tag']))
        elif op == 'DelayEnter':
            cm = hub.delay_callbacks()
            cm.__enter__()
            self.blocks.append(cm)
        elif op == 'IgnoreEnter':
            cm = hub.ignore_callbacks(self.cls[a['c']])
            cm.__enter__()
            self.blocks.append(cm)
        elif op in ('DelayExit', 'IgnoreExit'):
            cm = self.blocks.pop()
            if a.get('exc'):
                e = ValueError('propagating through the block')
                try:
                    swallowed = cm.__exit__(ValueError, e, None)
                except ValueError as e2:
                    if e2 is not e:
                        raise
                    swallowed = False
                if swallowed:
                    raise _Stop(self.cursor - 1, 'exception', 'propagates', 'swallowed')
            else:
                cm.__exit__(None, None, None)
        else:
            raise ValueError(op)

    def close_all(self):
        """Unwind blocks left open at the horizon so nothing leaks (results ignored)."""
        self.exhausted = True
        while self.blocks:
            try:
                self.blocks.pop().__exit__(None, None, None)
            except Exception:
                pass


def _fmt(a):
    return {k: v for k, v in a.items() if v not in ('-', 0, False) or k == 'op'}


def replay_one(plan, final_log=None):
    """plan: list of act dicts. Returns None or (step, component, expected, actual, note)."""
    r = Runner(plan)
    try:
        r.run_calls(in_handler=False)
        if final_log is not None:
            n = len(final_log)
            got = r.log[:n]
            if got != [list(x) for x in final_log]:
                return (len(plan) - 1, 'log', [list(x) for x in final_log], got, 'delivery log differs')
    except _Stop as s:
        return s.args_
    finally:
        r.close_all()
    return None


def replay_chunk(items, extra):
    """items: list of {'plan': [...], 'log': [...]}; returns list of divergence dicts."""
    use_repo()
    out = []
    steps = 0
    for it in items:
        steps += len(it['plan'])
        res = replay_one(it['plan'], it.get('log'))
        if res is not None:
            step, comp, exp, act, note = res
            out.append(Divergence({'spec': 'Hub', 'plan': it['plan'], 'log': it.get('log')}, step, comp,
                                  exp, act, kind=comp, note=note).to_json())
    return {'div': out, 'steps': steps, 'n': len(items)}
