"""E1 adapter for Joins.tla: real Data objects joined on key columns (join_on_key / JoinLink); after every step
the mask of the current selection on every dataset is compared with the admissible set computed by TLC."""
import numpy as np

from harness.core import use_repo, Divergence

TABLE = {
    'd1': {'p': [1, 1, 2], 'q': [2, 3, 3]},
    'd2': {'p': [1, 2, 3], 'q': [3, 3, 1]},
    'd3': {'p': [2, 2, 1], 'q': [1, 3, 2], 't': [11, 12, 13]},       # t: a text column (its keys equal no numeric key)
    'd4': {'p': [3, 1, 1], 'q': [2, 2, 3]},
    'd5': {'p': [1, 3, 1], 'q': [3, 1, 1]},          # holds keys 1 and 3 only: its columns are stored narrower than those of d2
}
MENU = {
    'J1': ('d1', ('p',), 'd2', ('p',)), 'J2': ('d2', ('q',), 'd3', ('p',)), 'J3': ('d3', ('q',), 'd1', ('q',)),
    'J4': ('d1', ('p', 'q'), 'd2', ('p', 'q')), 'J5': ('d2', ('p',), 'd3', ('p', 'q')),
    'J6': ('d3', ('p', 'q'), 'd4', ('p',)), 'J7': ('d4', ('q',), 'd1', ('p',)),
    'J8': ('d2', ('p', 'q'), 'd4', ('q', 'p')),
    'J9': ('d2', ('p',), 'd3', ('p', 't')),      # one key against a numeric and a text column
    'J10': ('d5', ('p', 'q'), 'd2', ('p', 'q')),    # several against several, the side being masked stored narrower
}
STR = {1: 'a', 2: 'bb', 3: 'ccc'}
STRT = {1: 'ab', 2: 'abcde', 3: 'x'}      # key 2 truncated to two characters would collide with key 1

# storage variants: dataset -> (kind, dtype); the abstract key k is stored as a value of that type
VARIANTS = {
    'int64': {d: ('int', 'int64') for d in TABLE},
    'mixed-int': {'d1': ('int', 'int32'), 'd2': ('int', 'int64'), 'd3': ('int', 'int16'), 'd4': ('int', 'uint8')},
    'int-float': {'d1': ('int', 'int64'), 'd2': ('float', 'float64'), 'd3': ('float', 'float32'), 'd4': ('int', 'int32')},
    'float-half': {d: ('half', 'float64') for d in TABLE},
    'str-widths': {'d1': ('str', '<U3'), 'd2': ('str', '<U8'), 'd3': ('str', '<U5'), 'd4': ('str', '<U12'), 'd5': ('str', '<U4')},
    # every column as wide as its own values need (numpy's choice): d5 gets <U2, d2 gets <U5
    'str-natural': {d: ('strt', None) for d in ('d1', 'd2', 'd3', 'd4', 'd5')},
}
for _v in ('int64', 'float-half'):
    VARIANTS[_v]['d5'] = VARIANTS[_v]['d1']
VARIANTS['mixed-int']['d5'] = ('int', 'int8')
VARIANTS['int-float']['d5'] = ('int', 'int16')


def column(keys, kind, dtype):
    if kind == 'int':
        return np.array(keys, dtype=dtype)
    if kind == 'float':
        return np.array(keys, dtype=dtype)
    if kind == 'half':
        return np.array([k + 0.5 for k in keys], dtype=dtype)
    if kind == 'str':
        return np.array([STR[k] for k in keys], dtype=dtype)
    if kind == 'strt':
        return np.array([STRT[k] for k in keys])
    raise ValueError(kind)


class JWorld(object):
    def __init__(self, variant, selkind, api):
        from glue.core import Data, DataCollection
        self.variant, self.selkind, self.api = variant, selkind, api
        self.data = {}
        for d, cols in TABLE.items():
            kind, dtype = VARIANTS[variant][d]
            kw = {c: (np.array(['k%d' % k for k in v]) if c == 't' else column(v, kind, dtype)) for c, v in cols.items()}
            kw['v'] = np.array([1.0, 2.0, 3.0])
            self.data[d] = Data(label=d, **kw)
        self.dc = DataCollection(list(self.data.values()))
        self.joinlinks = {}          # frozenset(pair) -> JoinLink registered in the collection
        self.state = None

    def make_state(self, s):
        src = self.data[s['src']]
        rows = sorted(s['sel'])
        if self.selkind == 'element':
            from glue.core.subset import ElementSubsetState
            return ElementSubsetState(indices=[r - 1 for r in rows], data=src)
        v = src.id['v']
        if not rows:
            return v > 99
        st = (v == float(rows[0]))
        for r in rows[1:]:
            st = st | (v == float(r))
        return st

    def step(self, a):
        from glue.core.link_helpers import JoinLink
        op = a['op']
        if op == 'Select':
            pass
        elif op == 'AddJoin':
            da, ca, db, cb = MENU[a['j']]
            A, B = self.data[da], self.data[db]
            key = frozenset((da, db))
            if key in self.joinlinks:
                self.dc.remove_link(self.joinlinks.pop(key))
            if len(ca) == 1 and len(cb) == 1 and self.api == 'joinlink':
                link = JoinLink(cids1=[A.id[ca[0]]], cids2=[B.id[cb[0]]], data1=A, data2=B)
                self.dc.add_link(link)
                self.joinlinks[key] = link
            else:
                A.join_on_key(B, tuple(ca) if len(ca) > 1 else ca[0], tuple(cb) if len(cb) > 1 else cb[0])
        elif op == 'RemoveJoin':
            da, ca, db, cb = MENU[a['j']]
            key = frozenset((da, db))
            if key in self.joinlinks:
                self.dc.remove_link(self.joinlinks.pop(key))
            else:
                # joined through Data.join_on_key: the only way to drop it is the JoinLink route
                A, B = self.data[da], self.data[db]
                link = JoinLink(cids1=[A.id[ca[0]]], cids2=[B.id[cb[0]]], data1=A, data2=B)
                self.dc.add_link(link)
                self.dc.remove_link(link)
        else:
            raise ValueError(op)
        self.state = self.make_state(a['s'])

    def compare(self, exp):
        from glue.core.exceptions import IncompatibleAttribute
        views = [None, (slice(0, 2),), (slice(1, 3, 2),), np.array([2, 0])]
        for d in sorted(self.data):
            adm = sorted(sorted(m) for m in exp[d])
            dobj = self.data[d]
            try:
                m = dobj.get_mask(self.state)
                got = sorted(int(i) + 1 for i in np.flatnonzero(m))
                if m.shape != dobj.shape:
                    return ('shape[%s]' % d, list(dobj.shape), list(m.shape))
            except IncompatibleAttribute:
                got = 'incompatible'
                m = None
            if not adm:
                if got != 'incompatible':
                    return ('mask[%s]' % d, 'incompatible', got)
                continue
            if got == 'incompatible' or got not in adm:
                return ('mask[%s]' % d, adm, got)
            for v in views[1:]:
                try:
                    mv = dobj.get_mask(self.state, view=v)
                except Exception as e:
                    return ('view[%s]' % d, 'mask[view]', 'raised %s: %s' % (type(e).__name__, e))
                ok = any(np.array_equal(mv, np.isin(np.arange(1, 4), a)[v]) for a in adm)
                if not ok:
                    return ('view[%s,%s]' % (d, v), 'one of the admissible masks under the view', [bool(x) for x in np.ravel(mv)])
        return None


def replay_one(beh):
    w = JWorld(beh['variant'], beh['selkind'], beh['api'])
    for i, stp in enumerate(beh['steps']):
        try:
            w.step(stp['act'])
        except Exception as e:
            import traceback
            return (i, 'exception', 'no exception', '%s: %s' % (type(e).__name__, e), traceback.format_exc()[-600:])
        try:
            r = w.compare(stp['exp'])
        except Exception as e:
            import traceback
            return (i, 'exception', 'a mask or IncompatibleAttribute', '%s: %s' % (type(e).__name__, e),
                    traceback.format_exc()[-600:])
        if r is not None:
            return (i, r[0], r[1], r[2], 'variant=%s selkind=%s api=%s' % (beh['variant'], beh['selkind'], beh['api']))
    return None


def replay_chunk(items, extra):
    use_repo()
    out = []
    steps = 0
    for it in items:
        steps += len(it['steps'])
        res = replay_one(it)
        if res is not None:
            step, comp, exp, act, note = res
            out.append(Divergence({'spec': 'Joins', 'variant': it['variant'], 'selkind': it['selkind'], 'api': it['api'],
                                   'steps': it['steps']}, step, comp, exp, act,
                                  kind=comp.split('[')[0] + ':' + it['variant'], note=note).to_json())
    return {'div': out, 'steps': steps, 'n': len(items)}
