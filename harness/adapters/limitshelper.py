"""E1 adapter for LimitsHelper.tla (extra coverage): the real StateAttributeLimitsHelper on a State with plain callback properties."""
import numpy as np

from harness.core import use_repo, Divergence


def make():
    from glue.core import Data
    from glue.core.state_objects import State, StateAttributeLimitsHelper
    from echo import CallbackProperty

    class S(State):
        att = CallbackProperty()
        lower = CallbackProperty()
        upper = CallbackProperty()
        percentile = CallbackProperty()
        log = CallbackProperty()
    d = Data(u=np.arange(0.0, 101.0, 5.0), v=np.concatenate([np.arange(-40.0, 61.0, 10.0), np.full(10, np.nan)]), label='d')
    st = S()
    helper = StateAttributeLimitsHelper(st, attribute='att', lower='lower', upper='upper', percentile='percentile', log='log')
    return d, st, helper


def replay_one(beh):
    d, st, helper = make()
    for i, stp in enumerate(beh['steps']):
        a, want = stp['act'], stp['cur']
        op = a['op']
        try:
            if op == 'SetAttribute':
                st.att = d.id[a['a']]
            elif op == 'SetPercentile':
                st.percentile = 'Custom' if a['x'] == -1 else a['x']
            elif op == 'SetLog':
                st.log = bool(a['x'])
            elif op == 'SetLower':
                st.lower = a['x'] / 100.0
            elif op == 'SetUpper':
                st.upper = a['x'] / 100.0
            elif op == 'Flip':
                helper.flip_limits()
            else:
                raise ValueError(op)
        except Exception as e:
            import traceback
            return (i, 'exception[%s]' % op, 'no exception', '%s: %s' % (type(e).__name__, str(e)[:200]), traceback.format_exc()[-300:])
        got = {'lower': st.lower, 'upper': st.upper, 'percentile': -1 if st.percentile == 'Custom' else st.percentile, 'log': bool(st.log)}
        exp = {'lower': want['lower'] / 100.0, 'upper': want['upper'] / 100.0, 'percentile': want['percentile'], 'log': want['log']}
        for k in ('percentile', 'log'):
            if got[k] != exp[k]:
                return (i, k, exp[k], got[k], 'after %s' % a)
        for k in ('lower', 'upper'):
            if got[k] is None or abs(float(got[k]) - exp[k]) > 1e-9:
                return (i, k, exp[k], None if got[k] is None else float(got[k]), 'after %s' % a)
    return None


def replay_chunk(items, extra):
    use_repo()
    import warnings
    warnings.simplefilter('ignore')
    out = []
    steps = 0
    for it in items:
        steps += len(it['steps'])
        r = replay_one(it)
        if r is not None:
            out.append(Divergence({'spec': 'LimitsHelper', 'steps': it['steps']}, r[0], r[1], r[2], r[3], kind=r[1].split('[')[0], note=r[4]).to_json())
    return {'div': out, 'steps': steps, 'n': len(items)}
