"""E1 adapter for Links.tla: real DataCollection + LinkManager stepped through link/component/dataset
histories; after every step the reachability, values and masks seen by every dataset are compared with
what the specification computed (exp)."""
import itertools
import numpy as np

from harness.core import use_repo, Divergence

VALUES = {
    'd1.a': [1.0, 2.0, 3.0], 'd1.b': [4.0, 5.0, 6.0], 'd1.c': [2.5, 4.5, 6.5],       # d1.c = 2 * d1.a + 0.5 (derived)
    'd2.a': [7.0, 8.0, 9.0, 10.0], 'd2.b': [11.0, 12.0, 13.0, 14.0],
    'd3.a': [15.0, 16.0], 'd3.b': [17.0, 18.0],
}
INF = 99

# distinguishable affine functions; inverses are exact in floating point
FWD = {
    'L1': lambda x: 2 * x + 1, 'L2': lambda x: 3 * x + 2, 'L3': lambda x: x + 10,
    'L4': lambda x, y: x + 3 * y + 5, 'L5': lambda x: 2 * x - 7, 'L6': lambda x: x,
    'L7': lambda x: x + 100, 'L8': lambda x: 3 - x, 'L9': lambda x, y: 5 * x - 2 * y + 1,
    'L10': lambda x, y: 2 * x - y + 40, 'L11': lambda x: 4 * x - 1,
    'def:d1.c': lambda x: 2 * x + 0.5,           # the defining expression of the derived attribute
}
# backward function of the many-to-one helper: one value per input
BWD = {'L10': lambda z: (z - 20, z * 0.5 + 3)}
INV = {
    'L1': lambda y: (y - 1) / 2, 'L3': lambda y: y - 10, 'L6': lambda y: y, 'L8': lambda y: 3 - y, 'L11': lambda y: (y + 1) / 4,
}
MENU = {
    'L1': (('d1.a',), 'd2.a', True), 'L2': (('d2.a',), 'd3.a', False), 'L3': (('d1.b',), 'd3.a', True),
    'L4': (('d1.a', 'd1.b'), 'd2.b', False), 'L5': (('d3.a',), 'd1.a', False), 'L6': (('d2.b',), 'd3.b', True),
    'L7': (('d2.a',), 'd2.b', False), 'L8': (('d3.b',), 'd1.b', True), 'L9': (('d2.a', 'd3.a'), 'd1.b', False),
    'L10': (('d1.a', 'd1.b'), 'd2.b', True), 'L11': (('d1.c',), 'd3.b', True),
    'def:d1.c': (('d1.a',), 'd1.c', False),
}


class LWorld(object):
    def __init__(self, initial, initial_coll=()):
        from glue.core import Data, DataCollection
        self.dc = DataCollection()
        self.data = {}
        self.cid = {}              # comp name -> live ComponentID
        self.dead = []             # ComponentIDs of removed components
        for d in ('d1', 'd2', 'd3'):
            self.data[d] = Data(label=d)
        for c in sorted(initial):
            self._add_comp(c)
        self.linkobj = {}
        self.blocks = []
        for d in sorted(initial_coll):
            self.dc.append(self.data[d])

    def _add_comp(self, c):
        d = self.data[c.split('.')[0]]
        if c == 'd1.c':
            # an internal derived attribute: d1.c = 2 * d1.a + 0.5
            from glue.core.component_id import ComponentID
            cid = ComponentID('c', parent=d)
            d.add_component_link(self.cid['d1.a'] * 2 + 0.5, cid)
            self.cid[c] = cid
            return
        self.cid[c] = d.add_component(np.array(VALUES[c]), c.split('.')[1])

    def make_link(self, lid):
        from glue.core.component_link import ComponentLink
        from glue.core.link_helpers import LinkSame
        frm, to, inv = MENU[lid]
        if lid == 'L6':
            return LinkSame(self.cid[frm[0]], self.cid[to])
        if lid in BWD:
            from glue.core.link_helpers import MultiLink
            return MultiLink([self.cid[f] for f in frm], [self.cid[to]], forwards=FWD[lid], backwards=BWD[lid])
        return ComponentLink([self.cid[f] for f in frm], self.cid[to], using=FWD[lid],
                             inverse=INV.get(lid) if inv else None)

    def step(self, a, links_after):
        op = a['op']
        dc = self.dc
        if op == 'AppendData':
            dc.append(self.data[a['d']])
        elif op == 'RemoveData':
            dc.remove(self.data[a['d']])
        elif op == 'AddComponent':
            self._add_comp(a['c'])
        elif op == 'RemoveComponent':
            cid = self.cid.pop(a['c'])
            self.data[a['d']].remove_component(cid)
            self.dead.append(cid)
            if a['c'] == 'd1.a' and 'd1.c' in self.cid:        # the derived attribute computed from it goes with it
                self.dead.append(self.cid.pop('d1.c'))
        elif op == 'AddLink':
            if a['l'] not in self.linkobj:
                self.linkobj[a['l']] = self.make_link(a['l'])
            dc.add_link(self.linkobj[a['l']])
        elif op == 'RemoveLink':
            dc.remove_link(self.linkobj[a['l']])
        elif op == 'SetLinks':
            objs = []
            for lid in sorted(a['s']):
                if lid not in self.linkobj:
                    self.linkobj[lid] = self.make_link(lid)
                objs.append(self.linkobj[lid])
            dc.set_links(objs)
        elif op == 'DelayEnter':
            cm = dc.delay_link_manager_update()
            cm.__enter__()
            self.blocks.append(cm)
        elif op == 'DelayExit':
            self.blocks.pop().__exit__(None, None, None)
        else:
            raise ValueError(op)
        # link objects of links that are no longer registered are not reused
        for lid in list(self.linkobj):
            if lid not in links_after:
                del self.linkobj[lid]

    def close(self):
        while self.blocks:
            try:
                self.blocks.pop().__exit__(None, None, None)
            except Exception:
                pass

    # -- admissible values, by scalar arithmetic over the spec's choices ----------------------
    def admissible(self, d, c, exp, memo):
        """Set of admissible value tuples of component c as read by dataset d."""
        key = (d, c)
        if key in memo:
            return memo[key]
        e = exp[d][c]
        if e['depth'] == 0:
            res = {tuple(VALUES[c])}
        else:
            res = set()
            for lid, direction in e['choices']:
                frm, to, inv = MENU[lid]
                if direction == 'fwd':
                    ins, f = frm, FWD[lid]
                elif direction in ('inv1', 'inv2'):
                    ins, f = (to,), (lambda z, _b=BWD[lid], _i=int(direction[3]) - 1: _b(z)[_i])
                else:
                    ins, f = (to,), INV[lid]
                options = [sorted(self.admissible(d, i, exp, memo)) for i in ins]
                for combo in itertools.product(*options):
                    n = len(combo[0])
                    res.add(tuple(float(f(*[col[k] for col in combo])) for k in range(n)))
        memo[key] = res
        return res

    def link_names(self, objs):
        names = []
        for o in objs:
            hit = [lid for lid, lo in self.linkobj.items() if lo is o]
            names.append(hit[0] if hit else 'unknown-link')
        return sorted(names)

    def compare(self, st):
        from glue.core.exceptions import IncompatibleAttribute
        dc = self.dc
        exp_links = sorted(st['links'])
        got_links = self.link_names(dc.external_links)
        if got_links != exp_links:
            return ('external_links', exp_links, got_links)
        # no registered link mentions a removed component
        for o in dc.external_links:
            for dead in self.dead:
                subs = list(o) if hasattr(o, '__iter__') and not hasattr(o, 'get_from_ids') else [o]
                for sl in subs:
                    if dead in sl:
                        return ('dangling_link', None, '%s mentions removed component %s' % (self.link_names([o]), dead.label))
        if st['delay'] != 0:
            return None
        exp = st['exp']
        memo = {}
        live = {id(v): k for k, v in self.cid.items()}
        for d in sorted(st['coll']):
            dobj = self.data[d]
            installed = []
            for cid in dobj.externally_derivable_components:
                installed.append(live.get(id(cid), 'removed-or-foreign:%s' % cid.label))
            want = sorted(c for c in st['comps'] if 0 < exp[d][c]['depth'] < INF)
            if sorted(installed) != want:
                return ('installed[%s]' % d, want, sorted(installed))
            for c in sorted(st['comps']):
                cid = self.cid[c]
                depth = exp[d][c]['depth']
                if depth == INF:
                    try:
                        v = dobj[cid]
                        return ('readable[%s,%s]' % (d, c), 'IncompatibleAttribute', [float(x) for x in np.ravel(v)])
                    except IncompatibleAttribute:
                        pass
                    try:
                        m = dobj.get_mask(cid > 0)
                        return ('mask[%s,%s]' % (d, c), 'IncompatibleAttribute', [bool(x) for x in m])
                    except IncompatibleAttribute:
                        pass
                    continue
                adm = self.admissible(d, c, exp, memo)
                try:
                    v = tuple(float(x) for x in np.ravel(dobj[cid]))
                except Exception as e:
                    return ('readable[%s,%s]' % (d, c), sorted(adm)[0], 'raised %s: %s' % (type(e).__name__, e))
                if v not in adm:
                    return ('value[%s,%s]' % (d, c), [list(x) for x in sorted(adm)], list(v))
                if len(v) != dobj.size:
                    return ('shape[%s,%s]' % (d, c), dobj.size, len(v))
                thr = sorted(v)[len(v) // 2]
                for state, fn in ((cid > thr, lambda x: x > thr), (cid <= thr, lambda x: x <= thr)):
                    try:
                        m = [bool(x) for x in dobj.get_mask(state)]
                    except Exception as e:
                        return ('mask[%s,%s]' % (d, c), [fn(x) for x in v], 'raised %s' % type(e).__name__)
                    if m != [fn(x) for x in v]:
                        return ('mask[%s,%s]' % (d, c), [fn(x) for x in v], m)
        return None


def replay_one(beh):
    w = LWorld(beh['initial'], beh.get('initial_coll', ()))
    try:
        for i, stp in enumerate(beh['steps']):
            try:
                w.step(stp['act'], stp['st']['links'])
            except Exception as e:
                import traceback
                return (i, 'exception', 'no exception', '%s: %s' % (type(e).__name__, e), traceback.format_exc()[-600:])
            r = w.compare(stp['st'])
            if r is not None:
                return (i, r[0], r[1], r[2], None)
    finally:
        w.close()
    return None


def replay_chunk(items, extra):
    use_repo()
    import gc
    out = []
    steps = 0
    for it in items:
        steps += len(it['steps'])
        res = replay_one(it)
        if res is not None:
            step, comp, exp, act, note = res
            out.append(Divergence({'spec': 'Links', 'initial': it['initial'], 'initial_coll': it.get('initial_coll', []), 'steps': it['steps']}, step, comp, exp, act,
                                  kind=comp.split('[')[0], note=note).to_json())
    gc.collect()
    return {'div': out, 'steps': steps, 'n': len(items)}
