"""E1 adapter for Memo.tla (C05): long-lived real objects are evaluated and mutated along a behaviour; for every
evaluation the same abstract state (versions) is rebuilt with fresh, never evaluated objects and the results compared."""
import numpy as np

from harness.core import use_repo, Divergence
from harness import zoo

SHAPES = {'s1': (2, 3), 's2': (3, 2)}
LEAF_KINDS = ['range', 'roi_rect', 'catroi', 'element', 'category', 'mask', 'slice', 'flood', 'ineq', 'multirange', 'roi_poly',
              'ineq_linked']      # a selection on the OTHER dataset's attribute: its mask on d depends on the link in force


def fvals(shape, ver):
    n = int(np.prod(shape))
    return (np.arange(n, dtype=float) * 0.5 - 1.0 + 0.75 * ver).reshape(shape)


def ivals(shape, ver):
    n = int(np.prod(shape))
    return (((np.arange(n) * 7 + 3 * ver) % 5) - 2).astype(float).reshape(shape)


def cvals(shape, ver):
    n = int(np.prod(shape))
    alpha = ('a', 'b', 'c')
    return np.array([alpha[(k * 2 + k // 3 + ver) % 3] for k in range(n)]).reshape(shape)


class Env(object):
    """A dataset d (in a collection, with a second dataset o) at given versions."""

    def __init__(self, dver, shape, linked, incoll=True, vs=None):
        from glue.core import Data, DataCollection
        self.shape_name = shape
        shp = SHAPES[shape]
        self.d = Data(label='d', f=fvals(shp, dver), i=ivals(shp, dver), c=cvals(shp, 0),
                      g2=np.arange(1, int(np.prod(shp)) + 1, dtype=float).reshape(shp) ** 2,
                      k=np.full(shp, 2.0 + dver))      # constant: sampled statistics of it do not depend on the random draw
        self.o = Data(label='o', x=np.arange(6, dtype=float).reshape(SHAPES['s1']))
        self.dc = DataCollection([self.d, self.o]) if incoll else None
        self.link = None
        self.viewer_state = None
        self.layer_state = None
        if linked and linked != 'none':
            self.set_link(linked)
        if vs is not None and incoll:
            self.make_viewer(vs)

    def make_link(self, kind):
        from glue.core.component_link import ComponentLink
        if kind == 'L1':
            return ComponentLink([self.d.id['f']], self.o.id['x'], using=lambda v: v * 2.0 + 1.0, inverse=lambda v: (v - 1.0) / 2.0)
        return ComponentLink([self.d.id['f']], self.o.id['x'], using=lambda v: v - 4.0, inverse=lambda v: v + 4.0)

    def set_link(self, kind):
        if kind == 'none':
            if self.link is not None:
                self.dc.remove_link(self.link)
            self.link = None
        elif self.link is None:
            self.link = self.make_link(kind)
            self.dc.add_link(self.link)
        else:
            self.link = self.make_link(kind)
            self.dc.set_links([self.link])          # replaces the link: same reachable attributes, other values

    def make_viewer(self, vs):
        from glue.viewers.histogram.state import HistogramViewerState, HistogramLayerState
        self.viewer_state = HistogramViewerState()
        self.layer_state = HistogramLayerState(layer=self.d, viewer_state=self.viewer_state)
        self.viewer_state.layers.append(self.layer_state)
        self.viewer_state.x_att = self.d.id['g2']
        self.apply_viewer(vs)

    def apply_viewer(self, vs):
        v = self.viewer_state
        v.x_log = bool(vs['log'])
        v.hist_n_bin = int(vs['nbin'])


def params(kind, ver, shape):
    n = int(np.prod(shape))
    if kind == 'range':
        return [(-0.5, 1.0), (0.0, 2.5), (-2.0, 0.2), (1.0, 9.0)][ver]
    if kind == 'multirange':
        return [[(-1.0, -0.5), (1.0, 1.5)], [(0.0, 0.5)], [(-1.0, 3.0)], [(2.0, 2.5), (0.0, 0.2)]][ver]
    if kind in ('roi_rect', 'roi_poly'):
        return [(0.25, 0.0), (1.0, 1.0), (-0.5, -1.0), (2.0, 0.5)][ver]          # centre
    if kind == 'catroi':
        return [['a'], ['b', 'c'], ['c'], ['a', 'b']][ver]
    if kind == 'element':
        return [[0, n - 1], [1], [2, 3], [0, 1, 2]][ver]
    if kind == 'category':
        return [[0], [1, 2], [2], [0, 1]][ver]
    if kind == 'mask':
        return [2, 3, 4, 5][ver]                                                  # modulus of the pattern
    if kind == 'slice':
        return [(0, 2), (1, 3), (0, 1), (1, 2)][ver]                              # range on the last axis
    if kind == 'flood':
        return [1.1, 1.6, 2.0, 3.0][ver]
    if kind in ('ineq', 'ineq_linked'):
        return None
    raise ValueError(kind)


def build_leaf(env, kind, ver):
    from glue.core import subset as S
    from glue.core import roi as R
    d = env.d
    shp = d.shape
    f, i, c = d.id['f'], d.id['i'], d.id['c']
    p = params(kind, ver, shp)
    if kind == 'range':
        return S.RangeSubsetState(p[0], p[1], att=f)
    if kind == 'multirange':
        return S.MultiRangeSubsetState(list(p), att=f)
    if kind == 'roi_rect':
        return S.RoiSubsetState(xatt=f, yatt=i, roi=R.RectangularROI(p[0] - 1.0, p[0] + 1.0, p[1] - 1.5, p[1] + 1.5))
    if kind == 'roi_poly':
        cx, cy = p
        return S.RoiSubsetState(xatt=f, yatt=i, roi=R.PolygonalROI([cx - 1.0, cx + 1.0, cx + 1.0, cx - 1.0],
                                                                  [cy - 1.5, cy - 1.5, cy + 1.5, cy + 1.5]))
    if kind == 'catroi':
        return S.CategoricalROISubsetState(att=c, roi=R.CategoricalROI(list(p)))
    if kind == 'element':
        return S.ElementSubsetState(indices=list(p))
    if kind == 'category':
        return S.CategorySubsetState(c, list(p))
    if kind == 'mask':
        return S.MaskSubsetState((np.arange(int(np.prod(shp))) % p == 1).reshape(shp), list(d.pixel_component_ids))
    if kind == 'slice':
        return S.SliceSubsetState(d, [slice(None)] * (len(shp) - 1) + [slice(p[0], p[1])])
    if kind == 'flood':
        return S.FloodFillSubsetState(d, i, tuple(0 for _ in shp), p)
    if kind == 'ineq':
        return f > 0.3
    if kind == 'ineq_linked':
        return env.o.id['x'] > 0.5
    raise ValueError(kind)


def mutate_leaf(env, state, kind, ver, how):
    """Bring a live leaf to parameter version `ver` through the public API, in the way `how` asks for."""
    from glue.core import roi as R
    d = env.d
    shp = d.shape
    p = params(kind, ver, shp)
    if kind == 'range':
        state.lo, state.hi = p
    elif kind == 'multirange':
        state.pairs = list(p)
    elif kind in ('roi_rect', 'roi_poly'):
        if how == 'move':
            state.move_to(p[0], p[1])
        elif how == 'edit':
            state.roi.move_to(p[0], p[1])
        else:
            state.roi = build_leaf(env, kind, ver).roi
    elif kind == 'catroi':
        if how == 'set':
            state.roi = R.CategoricalROI(list(p))
        else:
            state.roi.update_categories(list(p))
    elif kind == 'element':
        state.indices = list(p)
    elif kind == 'category':
        state.categories = np.asarray(list(p))
    elif kind == 'mask':
        state.mask = (np.arange(int(np.prod(shp))) % p == 1).reshape(shp)
    elif kind == 'slice':
        state.slices = [slice(None)] * (len(shp) - 1) + [slice(p[0], p[1])]
    elif kind == 'flood':
        state.threshold = p
    else:
        raise ValueError(kind)


def build_tree(tree, leaves):
    from glue.core.subset import MultiOrState
    A, B = leaves.get('A'), leaves.get('B')
    if tree == 'A':
        return A
    if tree == 'and(A,B)':
        return A & B
    if tree == 'not(A)':
        return ~A
    if tree == 'mor(A,B)':
        return MultiOrState([A, B])
    if tree == 'or(not(A),B)':
        return (~A) | B
    if tree == 'xor(and(A,B),A)':
        return (A & B) ^ A
    raise ValueError(tree)


def live_leaves(tree, state, slot):
    """The live leaf objects for a slot inside the (possibly composite) state (composites copy their operands)."""
    if tree == 'A':
        return [state]
    if tree == 'and(A,B)':
        return [state.state1 if slot == 'A' else state.state2]
    if tree == 'not(A)':
        return [state.state1]
    if tree == 'mor(A,B)':
        return [state.states[0 if slot == 'A' else 1]]
    if tree == 'or(not(A),B)':
        return [state.state1.state1] if slot == 'A' else [state.state2]
    if tree == 'xor(and(A,B),A)':
        return [state.state1.state1, state.state2] if slot == 'A' else [state.state1.state2]
    raise ValueError(tree)


def evaluate(env, state, subset, kind):
    from glue.core.exceptions import IncompatibleAttribute
    try:
        return _evaluate(env, state, subset, kind)
    except IncompatibleAttribute:
        return np.asarray([-777.0])        # the selection cannot be evaluated here (no link): an answer like any other


def _evaluate(env, state, subset, kind):
    d = env.d
    if kind == 'mask':
        return np.asarray(d.get_mask(state)).copy()
    if kind == 'maskview':
        return np.asarray(d.get_mask(state, view=(slice(0, 2), slice(0, None, 2)))).copy()
    if kind == 'subset':
        if subset is None:
            return np.asarray(d.get_mask(state, view=(slice(0, 1),))).copy()
        return np.asarray(subset.to_mask()).copy()
    if kind == 'stat':
        return np.asarray([d.compute_statistic('sum', d.id['f'], subset_state=state),
                           d.compute_statistic('maximum', d.id['i'], subset_state=state)], dtype=float)
    if kind == 'statsample':
        # statistics and a histogram of a random sample (4 of 6 elements) of the constant attribute: deterministic
        return np.asarray([d.compute_statistic('sum', d.id['k'], random_subset=4), d.compute_statistic('maximum', d.id['k'], random_subset=4)] +
                          list(np.asarray(d.compute_histogram([d.id['k']], range=[(0.0, 10.0)], bins=[2], random_subset=4), dtype=float)), dtype=float)
    if kind == 'hist':
        return np.asarray(d.compute_histogram([d.id['f']], range=[(-2.0, 6.0)], bins=[4], subset_state=state), dtype=float)
    if kind == 'layerhist':
        if env.layer_state is None:
            return np.asarray([0.0])
        env.layer_state.reset_cache() if False else None
        h = env.layer_state.histogram
        return np.concatenate([np.asarray(h[0], dtype=float), np.asarray(h[1], dtype=float)])
    if kind == 'linkedvalue':
        from glue.core.exceptions import IncompatibleAttribute
        if env.dc is None:
            return np.asarray([-1.0])
        try:
            return np.asarray(env.d[env.o.id['x']]).copy()      # d reads o.x through the link
        except IncompatibleAttribute:
            return np.asarray([-12345.0])
    raise ValueError(kind)


def clear_memo():
    """Isolation between behaviours: empty every memo cache (they hold strong references for ever)."""
    from glue.core import subset as S
    for cls in vars(S).values():
        f = getattr(cls, 'to_mask', None) if isinstance(cls, type) else None
        c = getattr(f, '__memoize_cache', None) if f is not None else None
        if c is None and f is not None:
            c = getattr(f, '_memoize__memoize_cache', None)
        if isinstance(c, dict):
            c.clear()


def replay_one(beh):
    kinds = beh['kinds']
    incoll = True
    env = None
    state = subset = group = None
    tree = None
    st = None
    try:
        for i, stp in enumerate(beh['steps']):
            a, st = stp['act'], stp['st']
            op = a['op']
            try:
                if op == 'Setup':
                    tree = a['a']
                    incoll = a['b'] != 'standalone'
                    env = Env(0, 's1', 'none', incoll=incoll, vs=st['vs'])
                    leaves = {s: build_leaf(env, kinds[s], 0) for s in ('A', 'B')}
                    state = build_tree(tree, leaves)
                    if a['b'] == 'attached':
                        group = env.dc.new_subset_group(subset_state=state)
                        state = group.subset_state
                        subset = [s for s in env.d.subsets if s.group is group][0]
                elif op == 'Evaluate':
                    got = evaluate(env, state, subset, a['a'])
                    fresh_env = Env(st['dver'], st['shape'], st['linked'], incoll=incoll, vs=st['vs'])
                    fl = {s: build_leaf(fresh_env, kinds[s], st['pver'][s]) for s in ('A', 'B')}
                    fstate = build_tree(tree, fl)
                    fsub = None
                    if subset is not None:
                        fg = fresh_env.dc.new_subset_group(subset_state=fstate)
                        fstate = fg.subset_state
                        fsub = [s for s in fresh_env.d.subsets if s.group is fg][0]
                    want = evaluate(fresh_env, fstate, fsub, a['a'])
                    if got.shape != want.shape or not np.array_equal(got, want, equal_nan=True):
                        return (i, 'stale[%s]' % a['a'], want.tolist(), got.tolist(),
                                'tree %s kinds %r attached %s' % (tree, kinds, subset is not None))
                elif op == 'UpdateComponents':
                    d = env.d
                    d.update_components({d.id['f']: fvals(d.shape, st['dver']), d.id['i']: ivals(d.shape, st['dver']),
                                         d.id['k']: np.full(d.shape, 2.0 + st['dver'])})
                    comp = d.get_component(d.id['c'])
                    # the categorical column follows through the documented refresh path below only
                elif op == 'UpdateFromData':
                    from glue.core import Data
                    shp = SHAPES[st['shape']]
                    other = Data(label='d', f=fvals(shp, st['dver']), i=ivals(shp, st['dver']), c=cvals(shp, 0),
                                 g2=np.arange(1, int(np.prod(shp)) + 1, dtype=float).reshape(shp) ** 2, k=np.full(shp, 2.0 + st['dver']))
                    env.d.update_values_from_data(other)
                elif op == 'MutateLeaf':
                    slot = a['a']
                    for leaf in live_leaves(tree, state, slot):
                        mutate_leaf(env, leaf, kinds[slot], st['pver'][slot], a['b'])
                elif op == 'SetLink':
                    env.set_link(a['a'])
                elif op == 'SetViewer':
                    env.apply_viewer(st['vs'])
                else:
                    raise ValueError(op)
            except Exception as e:
                import traceback
                return (i, 'exception', 'no exception', '%s: %s' % (type(e).__name__, e), traceback.format_exc()[-600:])
    finally:
        clear_memo()
    return None


def applicable(beh):
    """Leaf kinds whose parameters cannot be changed are not paired with MutateLeaf steps on them; selections tied
    to the dataset's shape are not paired with a change of shape."""
    kinds = beh['kinds']
    for stp in beh['steps']:
        a = stp['act']
        if a['op'] == 'MutateLeaf' and kinds[a['a']] in ('ineq', 'ineq_linked'):
            return False
        if a['op'] == 'UpdateFromData' and a['a'] == 'newshape' and any(k in ('mask', 'flood', 'slice', 'element') for k in kinds.values()):
            return False
    return True


def replay_chunk(items, extra):
    use_repo()
    import warnings
    warnings.simplefilter('ignore')
    out = []
    steps = 0
    for it in items:
        steps += len(it['steps'])
        r = replay_one(it)
        if r is not None:
            out.append(Divergence({'spec': 'Memo', 'kinds': it['kinds'], 'steps': it['steps']}, r[0], r[1], r[2], r[3],
                                  kind=r[1].split('[')[0], note=r[4]).to_json())
    return {'div': out, 'steps': steps, 'n': len(items)}
