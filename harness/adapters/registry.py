"""E1 adapter for Registry.tla (extra coverage, no listed property): the real glue.core.registry.Registry."""
from harness.core import use_repo, Divergence


class Thing(object):
    def __init__(self, name):
        self.name = name


def fmt(lab):
    b, n = lab
    if b == '-':
        return None
    return b if n == 0 else '%s_%02d' % (b, n)


def replay_one(beh):
    from glue.core.registry import Registry
    r = Registry()
    r.clear()
    r._disable = False
    objs = {n: Thing(n) for n in ('o1', 'o2', 'o3')}
    try:
        for i, stp in enumerate(beh['steps']):
            a, st = stp['act'], stp['st']
            op = a['op']
            got = None
            if op == 'Register':
                got = r.register(objs[a['o']], a['b'], group=a['g'])
                if got != fmt(st['last']):
                    return (i, 'register_result', fmt(st['last']), got, 'after %s' % a)
            elif op == 'Unregister':
                r.unregister(objs[a['o']], group=a['g'])
            elif op == 'Clear':
                r.clear()
            elif op == 'SetDisabled':
                r._disable = (a['b'] == 'on')            # what the `disable` decorator does around a call
            for g, m in st['reg'].items():
                have = {o: r._registry[g].get(objs[o]) for o in objs}
                want = {o: fmt(m[o]) for o in objs}
                if have != want:
                    return (i, 'labels[%s]' % g, want, have, 'after %s' % a)
    finally:
        r.clear()
        r._disable = False
    return None


def replay_chunk(items, extra):
    use_repo()
    out = []
    steps = 0
    for it in items:
        steps += len(it['steps'])
        res = replay_one(it)
        if res is not None:
            out.append(Divergence({'spec': 'Registry', 'steps': it['steps']}, res[0], res[1], res[2], res[3], kind=res[1].split('[')[0], note=res[4]).to_json())
    return {'div': out, 'steps': steps, 'n': len(items)}
