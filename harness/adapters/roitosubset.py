"""E1 adapter for RoiToSubset.tla (C09): roi_to_subset_state on real data with numeric / categorical axes."""
import numpy as np

from harness.core import use_repo, Divergence
from harness.adapters import geometry as G

U = 20.0
LABELS = ['delta', 'alpha', 'charlie', 'bravo']     # appearance order differs from the sorted (plotting) order
NUMPOS = [-10, 0, 10, 20, 30, 40, 50]


def axis_positions(kind, n):
    return [c * 20 for c in range(n)] if kind == 'cat' else list(NUMPOS)


def check_one(roi_rec, inside, band, variant):
    from glue.core import Data
    from glue.core import roi as R
    from glue.core.subset import roi_to_subset_state
    xk, yk, nx, ny = roi_rec['xk'], roi_rec['yk'], roi_rec['nx'], roi_rec['ny']
    xs, ys = axis_positions(xk, nx), axis_positions(yk, ny)
    elems = [(x, y) for x in xs for y in ys]
    rng = np.random.RandomState(variant)
    rng.shuffle(elems)
    # plotting order of the categories: sorted labels, or (odd variants) an explicit order given to the component
    xlab = sorted(LABELS[:nx])
    ylab = sorted(LABELS[:ny])
    explicit = variant % 2 == 1
    if explicit:
        xlab = xlab[1:] + xlab[:1]
        ylab = ylab[::-1]

    def column(kind, vals, labels):
        if kind == 'cat':
            return np.array([labels[v // 20] for v in vals])
        return np.array([v / U for v in vals], dtype=float)
    xcol = column(xk, [e[0] for e in elems], xlab)
    ycol = column(yk, [e[1] for e in elems], ylab)
    extra = 0
    if xk == 'num' or yk == 'num':
        # missing values: an extra element with NaN on the numeric axes is never selected
        extra = 1
        xcol = np.concatenate([xcol, [np.nan] if xk == 'num' else [xlab[0]]])
        ycol = np.concatenate([ycol, [np.nan] if yk == 'num' else [ylab[0]]])
    if explicit:
        from glue.core.component import CategoricalComponent
        d = Data(label='r2s')
        d.add_component(CategoricalComponent(xcol, categories=np.array(xlab)) if xk == 'cat' else xcol, 'x')
        d.add_component(CategoricalComponent(ycol, categories=np.array(ylab)) if yk == 'cat' else ycol, 'y')
    else:
        d = Data(label='r2s', x=xcol, y=ycol)
    xatt, yatt = d.id['x'], d.id['y']
    xcats = d.get_component(xatt).categories if xk == 'cat' else None
    ycats = d.get_component(yatt).categories if yk == 'cat' else None
    if xk == 'cat' and [str(c) for c in xcats] != xlab:
        return ('categories[x]', xlab, [str(c) for c in xcats])
    if roi_rec['k'] == 'catset':
        roi = R.CategoricalROI([xlab[c] for c in sorted(roi_rec['cats'])])
    else:
        roi = G.build(roi_rec)
    try:
        state = roi_to_subset_state(roi, x_att=xatt, y_att=yatt, x_categories=xcats, y_categories=ycats)
        mask = np.asarray(d.get_mask(state))
    except Exception as e:
        import traceback
        return ('conversion', 'a selection', 'raised %s: %s' % (type(e).__name__, e), traceback.format_exc()[-300:])
    if mask.shape != (len(elems) + extra,):
        return ('mask_shape', [len(elems) + extra], list(mask.shape))
    ins = set((p[0], p[1]) for p in inside)
    bnd = set((p[0], p[1]) for p in band)
    for k, e in enumerate(elems):
        if e in bnd:
            continue
        if bool(mask[k]) != (e in ins):
            return ('selected', e in ins, bool(mask[k]), 'element at plotted position (%g, %g); state %s' % (e[0] / U, e[1] / U, type(state).__name__))
    if extra and mask[-1] and roi_rec['k'] not in ('xrange', 'yrange', 'catset'):
        return ('selected_nan', False, True, 'element with a missing value; state %s' % type(state).__name__)
    return None


def replay_chunk(items, extra):
    use_repo()
    import warnings
    warnings.simplefilter('ignore')
    out = []
    for it in items:
        r = check_one(it['roi'], it['inside'], it['band'], it['variant'])
        if r is not None:
            out.append(Divergence({'spec': 'RoiToSubset', 'roi': it['roi'], 'inside': it['inside'], 'band': it['band'], 'variant': it['variant']},
                                  0, r[0], r[1], r[2], kind='%s:%s:%s%s' % (r[0], it['roi']['k'], it['roi']['xk'], it['roi']['yk']),
                                  note=r[3] if len(r) > 3 else None).to_json())
    return {'div': out, 'steps': len(items), 'n': len(items)}
