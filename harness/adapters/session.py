"""E1 adapter for Session.tla (C02): real sessions built from the zoo, saved and restored; the observable projection
(labels, component order, values, linked attributes, subset masks, styles, metadata) is compared across every SaveLoad."""
import json
import numpy as np

from harness.core import use_repo, Divergence
from harness import zoo

SHAPES = {'s1': (4,), 's2': (2, 3)}


def times_two_plus_one(x):
    """forward function of the two-way link (module-level so that sessions can name it); not its own inverse"""
    return x * 2.0 + 1.0


def minus_one_halved(y):
    return (y - 1.0) / 2.0


def enc(a):
    a = np.asarray(a)
    if a.dtype.kind in 'fc':
        return ['nan' if x != x else ('inf' if x == float('inf') else ('-inf' if x == float('-inf') else float(x))) for x in a.reshape(-1).astype(float)]
    if a.dtype.kind in 'iub':
        return [int(x) for x in a.reshape(-1)]
    return [str(x) for x in a.reshape(-1)]


class SWorld(object):
    def __init__(self, shape):
        from glue.core import Data, DataCollection
        from glue.core.component_link import ComponentLink
        from glue.core import link_helpers as L
        self.z = zoo.Zoo(SHAPES[shape], with_link=False)
        z = self.z
        n = int(np.prod(z.shape))
        from glue.core.coordinates import AffineCoordinates
        # the second dataset has coordinates with units but no axis labels, and a fully transparent style
        z.o = Data(label='zoo_other', x=np.arange(n, dtype=float).reshape(z.shape) * 3.0 + 1.0,
                   coords=AffineCoordinates(zoo.affine_matrix(z.ndim), units=['deg', 'm', 's'][:z.ndim]))
        z.o.style.alpha = 0.0
        z.o.style.markersize = 3
        z.dc = DataCollection([z.d, z.o])
        z.linked = z.o.id['x']
        # a serialisable link (named function) so that d reads o.x
        z.dc.add_link(ComponentLink([z.f], z.linked, using=L.identity))
        # a richer second dataset for the link helpers
        z.o.add_component((np.arange(n, dtype=float) * 2.0 - 3.0).reshape(z.shape), 'y')
        z.o.add_component((np.arange(n, dtype=float) % 3).reshape(z.shape), 'zz')
        z.o.add_component((np.arange(n, dtype=float) * 0.5 + 2.0).reshape(z.shape), 'w')
        for k, name in enumerate(('u', 'v', 't')):
            z.d.add_component((np.arange(n, dtype=float) * (k + 1.5) + 10.0 * k).reshape(z.shape), name)
        from glue.core.component import CategoricalComponent
        # the same second key on both sides (for the several-to-several join)
        z.d.add_component((np.arange(n) % 2).reshape(z.shape), 'jk')
        z.o.add_component((np.arange(n) % 2).reshape(z.shape), 'jk')
        # a categorical component with explicit categories: custom order and an unused category
        z.o.add_component(CategoricalComponent(np.array(['b', 'a', 'zz', 'b', 'a', 'b'][:n] if n <= 6 else ['b'] * n).reshape(z.shape),
                                               categories=np.array(['zz', 'b', 'unused', 'a'])), 'cc')
        # ... and one with a custom order in which every category is used
        z.o.add_component(CategoricalComponent(np.array(['b', 'a', 'zz', 'b', 'a', 'b'][:n] if n <= 6 else ['b'] * n).reshape(z.shape),
                                               categories=np.array(['zz', 'b', 'a'] if n >= 3 else ['b', 'a'])), 'cc2')
        z.o.add_component((np.datetime64('2020-01-01T00:00:00') + np.arange(n) * np.timedelta64(36, 'h')).reshape(z.shape), 'when')
        z.d.style.color = '#102030'
        z.d.style.alpha = 0.25
        z.d.meta['origin'] = 'verif'
        z.d.meta['n'] = 3
        self.dc = z.dc
        self.fact = zoo.selection_factories(z)

    def rebind(self, dc2):
        z = self.z
        z.dc = dc2
        z.d, z.o = dc2[0], dc2[1]
        z.f, z.i, z.c, z.c2, z.g = (z.d.id[k] for k in ('f', 'i', 'c', 'c2', 'g'))
        z.pix = list(z.d.pixel_component_ids)
        z.wld = list(z.d.world_component_ids)
        z.linked = z.o.id['x']
        self.dc = dc2

    def tree(self, t):
        from glue.core.subset import MultiOrState
        a = self.fact[t['a']]()
        if t['op'] == 'leaf':
            return a
        if t['op'] == 'not':
            return ~a
        b = self.fact[t['b']]()
        if t['op'] == 'and':
            return a & b
        if t['op'] == 'or':
            return a | b
        if t['op'] == 'xor':
            return a ^ b
        if t['op'] == 'mor':
            return MultiOrState([a, b])
        raise ValueError(t['op'])

    def add_link(self, kind):
        from glue.core import link_helpers as L
        from glue.core.component_link import ComponentLink
        z = self.z
        d, o = z.d, z.o
        if kind == 'LinkSame':
            link = L.LinkSame(d.id['i'], o.id['y'])
        elif kind == 'LinkTwoWay':
            link = L.LinkTwoWay(d.id['i'], o.id['y'], times_two_plus_one, minus_one_halved)
        elif kind == 'LinkSameWithUnits':
            link = L.LinkSameWithUnits(d.id['i'], o.id['y'])
        elif kind == 'LinkAligned':
            link = L.LinkAligned(d, o)
        elif kind == 'MultiLink':
            link = L.MultiLink([d.id['f'], d.id['i'], d.id['g']], [o.id['zz']], forwards=L.lengths_to_volume,
                               labels1=['width', 'height', 'depth'], labels2=['volume'])
        elif kind == 'ComponentLink':
            link = ComponentLink([d.id['i']], o.id['zz'], using=L.identity)
        elif kind == 'JoinLink':
            link = L.JoinLink(cids1=[d.id['i']], cids2=[o.id['zz']], data1=d, data2=o)
        else:
            from glue.plugins.coordinate_helpers import link_helpers as C
            cls = getattr(C, kind)
            n1 = len(cls.labels1) if hasattr(cls, 'labels1') else 2
            n2 = len(cls.labels2) if hasattr(cls, 'labels2') else 2
            c1 = [d.id['u'], d.id['v'], d.id['t']][:n1]        # attributes no other link touches
            c2 = [o.id['y'], o.id['zz'], o.id['w']][:n2]        # not o.x: it already has a link of its own
            link = cls(cids1=c1, cids2=c2)
        self.dc.add_link(link)

    def project(self):
        from glue.core.exceptions import IncompatibleAttribute
        dc = self.dc
        out = {'labels': [d.label for d in dc], 'data': [], 'groups': []}
        for d in dc:
            rec = {'components': [c.label for c in d.main_components + d.derived_components], 'values': {}, 'linked': {},
                   'style': [d.style.color, d.style.alpha, d.style.markersize], 'meta': json.loads(json.dumps(dict(d.meta), default=str, sort_keys=True)),
                   'coords': type(d.coords).__name__, 'shape': list(d.shape),
                   'coords_units': [str(u) for u in (getattr(d.coords, 'world_axis_units', None) or [])] if d.coords is not None else None,
                   'coords_names': [str(u) for u in (getattr(d.coords, 'world_axis_names', None) or [])] if d.coords is not None else None,
                   'component_units': {c.label: str(getattr(d.get_component(c), 'units', None)) for c in d.world_component_ids},
                   'world': {c.label: enc(d[c]) for c in d.world_component_ids}}
            rec['categorical'] = {}
            for c in d.main_components + d.derived_components:
                comp = d.get_component(c)
                if hasattr(comp, 'categories') and hasattr(comp, 'codes'):
                    rec['categorical'][c.label] = {'codes': enc(comp.codes), 'categories': enc(comp.categories), 'labels': enc(comp.labels)}
                try:
                    rec['values'][c.label] = enc(d[c])
                except Exception as e:
                    rec['values'][c.label] = 'raised ' + type(e).__name__
            for other in dc:
                if other is d:
                    continue
                for c in other.main_components:
                    key = other.label + '.' + c.label
                    try:
                        rec['linked'][key] = enc(d[c])
                    except IncompatibleAttribute:
                        rec['linked'][key] = 'incompatible'
                    except Exception as e:
                        rec['linked'][key] = 'raised ' + type(e).__name__
            out['data'].append(rec)
        for g in dc.subset_groups:
            masks = []
            for d in dc:
                subs = [s for s in d.subsets if getattr(s, 'group', None) is g]
                if len(subs) != 1:
                    masks.append('%d subsets' % len(subs))
                    continue
                try:
                    masks.append(enc(subs[0].to_mask()))
                except IncompatibleAttribute:
                    masks.append('incompatible')
                except Exception as e:
                    masks.append('raised ' + type(e).__name__)
            out['groups'].append({'label': g.label, 'style': [g.style.color, g.style.alpha], 'masks': masks,
                                  'state_class': type(g.subset_state).__name__})
        return out


def first_difference(a, b, path=''):
    if type(a) != type(b):
        return (path, a, b)
    if isinstance(a, dict):
        for k in sorted(set(a) | set(b)):
            if k not in a or k not in b:
                return (path + '/' + str(k), a.get(k, '<absent>'), b.get(k, '<absent>'))
            r = first_difference(a[k], b[k], path + '/' + str(k))
            if r:
                return r
        return None
    if isinstance(a, list):
        if len(a) != len(b):
            return (path + '/len', len(a), len(b))
        for i, (x, y) in enumerate(zip(a, b)):
            r = first_difference(x, y, path + '/%d' % i)
            if r:
                return r
        return None
    return None if a == b else (path, a, b)


def replay_one(beh):
    from glue.core.state import GlueSerializer, GlueUnSerializer, GlueSerializeError
    w = SWorld(beh['shape'])
    loud = None
    for i, stp in enumerate(beh['steps']):
        a = stp['act']
        op = a['op']
        try:
            if op == 'NewGroup':
                st = w.tree(a['t'])
                w.dc.new_subset_group(subset_state=st, label='grp%d' % i, color='#aa5500', alpha=0.7)
            elif op == 'AddLink':
                w.add_link(a['s'])
            elif op == 'AddJoin':
                kind = a['s'] if a['s'] in ('j11', 'j1N', 'jNN') else 'j11'
                if kind == 'j11':
                    w.z.d.join_on_key(w.z.o, 'i', 'zz')
                elif kind == 'j1N':
                    w.z.d.join_on_key(w.z.o, 'i', ('zz', 'y'))        # one key on d matches either key on o
                else:
                    w.z.d.join_on_key(w.z.o, ('i', 'jk'), ('zz', 'jk'))
            elif op == 'SaveLoad':
                before = w.project()
                try:
                    text = GlueSerializer(w.dc).dumps()
                except Exception as e:
                    return ('loud', i, '%s at save: %s' % (type(e).__name__, str(e)[:120]))
                try:
                    dc2 = GlueUnSerializer.loads(text).object('__main__')
                except Exception as e:
                    import traceback
                    return ('div', i, 'load', 'a restored session', 'raised %s: %s' % (type(e).__name__, str(e)[:200]), traceback.format_exc()[-300:])
                w.rebind(dc2)
                after = w.project()
                d = first_difference(before, after)
                if d is not None:
                    return ('div', i, 'restored' + d[0], d[1], d[2], None)
            else:
                raise ValueError(op)
        except Exception as e:
            import traceback
            return ('div', i, 'exception[%s]' % op, 'no exception', '%s: %s' % (type(e).__name__, str(e)[:200]), traceback.format_exc()[-300:])
    return None


def replay_chunk(items, extra):
    use_repo()
    import warnings
    warnings.simplefilter('ignore')
    from glue.core.data_exporters import __init__ as _x  # noqa
    out = []
    loud = []
    steps = 0
    for it in items:
        steps += len(it['steps'])
        r = replay_one(it)
        if r is None:
            continue
        if r[0] == 'loud':
            loud.append(r[2])
            continue
        _, step, comp, exp, act, note = r
        kinds = [s['act']['t']['a'] for s in it['steps'] if s['act']['op'] == 'NewGroup'] + [s['act']['s'] for s in it['steps'] if s['act']['op'] == 'AddLink']
        out.append(Divergence({'spec': 'Session', 'shape': it['shape'], 'steps': it['steps']}, step, comp, exp, act,
                              kind='%s:%s' % (comp.split('/')[0].split('[')[0], ','.join(kinds)), note=note).to_json())
    return {'div': out, 'steps': steps, 'n': len(items), 'loud': loud}


def kinds():
    """Selection kinds (zoo factories) and link helper kinds found in the tree under test."""
    use_repo()
    import warnings
    warnings.simplefilter('ignore')
    import inspect
    z1 = zoo.Zoo(SHAPES['s1'])
    z2 = zoo.Zoo(SHAPES['s2'])
    sel = sorted(set(zoo.selection_factories(z1)) & set(zoo.selection_factories(z2)))
    only1 = sorted(set(zoo.selection_factories(z1)) - set(sel))
    from glue.core import link_helpers as L
    links = ['LinkSame', 'LinkTwoWay', 'LinkSameWithUnits', 'LinkAligned', 'MultiLink', 'ComponentLink', 'JoinLink']
    try:
        from glue.plugins.coordinate_helpers import link_helpers as C
        for n, cls in inspect.getmembers(C, inspect.isclass):
            if issubclass(cls, L.BaseMultiLink) and cls.__module__ == C.__name__ and not n.startswith('Base'):
                links.append(n)
    except Exception:
        pass
    # classes reachable by introspection vs classes the zoo builds
    from glue.core import subset as S

    def subs(c):
        out = set()
        for s in c.__subclasses__():
            out.add(s)
            out |= subs(s)
        return out
    built = set()
    for z in (z1, z2):
        for f in zoo.selection_factories(z).values():
            built.add(type(f()).__name__)
    allc = set(c.__name__ for c in subs(S.SubsetState))
    return {'sel': sel, 'sel_1d_only': only1, 'links': links, 'state_classes_without_factory': sorted(allc - built - {'CompositeSubsetState'})}
