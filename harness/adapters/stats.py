"""E1 adapter for Stats.tla (C10): Data.compute_statistic / compute_histogram against the kept-position sets and bin
assignments computed by TLC; the statistic itself is computed from the kept values with exact rational arithmetic."""
from fractions import Fraction
import math
import numpy as np

from harness.core import use_repo, Divergence

VALS = [3, 1000, -1, 4, 1001, 0, 2, -2, 5, 1, 1002, 6, 7, -3, 8, 9]
STATS = ['minimum', 'maximum', 'sum', 'mean', 'median', 'percentile25', 'percentile75']


def conv(v):
    return {1000: float('nan'), 1001: float('inf'), 1002: float('-inf')}.get(v, float(v))


def stat_of(name, vals):
    """vals: list of ints (finite). Returns float (exactly what IEEE arithmetic on exact inputs gives)."""
    if not vals:
        return float('nan')
    v = sorted(vals)
    n = len(v)
    if name == 'minimum':
        return float(v[0])
    if name == 'maximum':
        return float(v[-1])
    if name == 'sum':
        return float(sum(v))
    if name == 'mean':
        return float(Fraction(sum(v), n))
    q = {'median': Fraction(1, 2), 'percentile25': Fraction(1, 4), 'percentile75': Fraction(3, 4)}[name]
    r = (n - 1) * q
    lo = int(math.floor(r))
    hi = min(lo + 1, n - 1)
    t = r - lo
    return float(v[lo] + (v[hi] - v[lo]) * t)


def make_selection(d, shape, sel, variant):
    from glue.core import subset as S
    from glue.core import roi as R
    if sel['k'] == 'none':
        return None
    n = int(np.prod(shape))
    if sel['k'] == 'set':
        if variant % 2 == 0:
            m = np.zeros(n, dtype=bool)
            m[list(sel['s'])] = True
            return S.MaskSubsetState(m.reshape(shape), list(d.pixel_component_ids))
        return S.ElementSubsetState(indices=sorted(sel['s']), data=d)
    box = sel['box']
    if len(shape) >= 3 and all(box[k] == [0, shape[k]] for k in range(len(shape) - 2)):
        variant = 2          # a pure pixel-space region: the mask is broadcast along the leading axes
    if variant % 3 == 0 or len(shape) < 2:
        return S.SliceSubsetState(d, [slice(lo, hi) for lo, hi in box])
    if variant % 3 == 1:
        m = np.zeros(shape, dtype=bool)
        m[tuple(slice(lo, hi) for lo, hi in box)] = True
        return S.MaskSubsetState(m, list(d.pixel_component_ids))
    # a rectangle in pixel space over the last two axes, and inequalities for the others
    px = d.pixel_component_ids
    (ylo, yhi), (xlo, xhi) = box[-2], box[-1]
    st = S.RoiSubsetState(xatt=px[-1], yatt=px[-2], roi=R.RectangularROI(xlo - 0.5, xhi - 0.5, ylo - 0.5, yhi - 0.5))
    for k in range(len(shape) - 2):
        lo, hi = box[k]
        if [lo, hi] != [0, shape[k]]:
            st = st & (px[k] >= lo) & (px[k] < hi)
    return st


def check_stat(cfg, exp, variant):
    from glue.core import Data
    shape = tuple(cfg['shape'])
    n = int(np.prod(shape))
    arr = np.array([conv(v) for v in VALS[:n]]).reshape(shape)
    d = Data(label='s', v=arr)
    cid = d.id['v']
    view = tuple(slice(it['b'], it['e'], it['s']) for it in cfg['view']) if cfg['view'] else None
    axes = sorted(a - 1 for a in cfg['axes'])
    if not axes:
        axis_variants = [None]
    elif len(axes) == 1:
        axis_variants = [axes[0], (axes[0],)]
    else:
        axis_variants = [tuple(axes)]
    oshape = tuple(exp['oshape'])
    chunk_sizes = sorted(set([1, 2, max(1, n // 2), n - 1 if n > 1 else 1, 10 ** 9]))
    for stat in STATS:
        want = np.array([stat_of(stat, [VALS[p] for p in cell]) for cell in exp['kept']], dtype=float).reshape(oshape)
        empty = np.array([len(cell) == 0 for cell in exp['kept']]).reshape(oshape)
        for axis in axis_variants:
            for ncm in chunk_sizes:
                state = make_selection(d, shape, cfg['sel'], variant)
                kw = dict(subset_state=state, axis=axis, finite=True, positive=cfg['positive'], view=view, n_chunk_max=ncm)
                if stat.startswith('percentile'):
                    name, kw['percentile'] = 'percentile', float(stat[10:])
                else:
                    name = stat
                try:
                    got = np.asarray(d.compute_statistic(name, cid, **kw), dtype=float)
                except Exception as e:
                    return ('statistic[%s]' % stat, want.tolist(), 'raised %s: %s' % (type(e).__name__, str(e)[:200]),
                            'axis=%r n_chunk_max=%r' % (axis, ncm))
                if got.shape != oshape:
                    return ('shape[%s]' % stat, list(oshape), list(got.shape), 'axis=%r n_chunk_max=%r' % (axis, ncm))
                ok = True
                for g, w, em in zip(got.reshape(-1), want.reshape(-1), empty.reshape(-1)):
                    if em:
                        # nothing qualifies: NaN (a NaN-aware sum of nothing may also be 0)
                        if not (g != g or (stat == 'sum' and g == 0.0)):
                            ok = False
                    elif not (g == w):
                        ok = False
                if not ok:
                    return ('statistic[%s]' % stat, want.tolist(), got.tolist(), 'axis=%r n_chunk_max=%r' % (axis, ncm))
    return None


def check_hist(cfg, exp, variant):
    from glue.core import Data
    from glue.core.subset import ElementSubsetState
    h = cfg['h']
    vals = [conv(v) for v in h['vals']]
    if h['log']:
        x = np.array([2.0 ** v if v == v else v for v in vals])
        rng = (2.0 ** h['lo'], 2.0 ** h['hi'])
    else:
        x = np.array(vals)
        rng = (float(h['lo']), float(h['hi']))
    w = np.arange(1, len(vals) + 1, dtype=float)
    d = Data(label='h', x=x, w=w)
    sel = sorted(i - 1 for i in h['sel'])
    state = None if len(sel) == len(vals) else ElementSubsetState(indices=sel, data=d)
    for weighted in (False, True):
        up = [sum((w[i - 1] if weighted else 1.0) for i in b) for b in exp['upper']]
        lo = [sum((w[i - 1] if weighted else 1.0) for i in b) for b in exp['lower']]
        try:
            got = d.compute_histogram([d.id['x']], weights=d.id['w'] if weighted else None, range=[rng], bins=[h['n']],
                                      log=[h['log']], subset_state=state)
        except Exception as e:
            return ('histogram', up, 'raised %s: %s' % (type(e).__name__, str(e)[:200]), 'weighted=%s' % weighted)
        got = [float(v) for v in np.asarray(got)]
        if got != up and got != lo:
            return ('histogram', {'ties_up': up, 'ties_down': lo}, got, 'weighted=%s range=%r' % (weighted, rng))
    return None


def check_one(cfg, exp, variant):
    if cfg['kind'] == 'stat':
        return check_stat(cfg, exp, variant)
    return check_hist(cfg, exp, variant)


def replay_chunk(items, extra):
    use_repo()
    import warnings
    warnings.simplefilter('ignore')
    out = []
    for it in items:
        r = check_one(it['cfg'], it['exp'], it['variant'])
        if r is not None:
            out.append(Divergence({'spec': 'Stats', 'cfg': it['cfg'], 'exp': it['exp'], 'variant': it['variant']}, 0, r[0], r[1], r[2],
                                  kind=r[0].split('[')[0], note=r[3] if len(r) > 3 else None).to_json())
    return {'div': out, 'steps': len(items), 'n': len(items)}
