"""E1 adapter for SubsetAlgebra.tla (C01): trees of real SubsetState objects built by the public operators, the
many-way or, copies and the edit modes; every tree is evaluated after every action and compared with the truth table
computed by TLC applied to the masks of the leaves evaluated alone."""
import numpy as np

from harness.core import use_repo, Divergence
from harness import zoo

SHAPES = [(4,), (2, 3), (2, 3, 2)]
_CACHE = {}


def get_zoo(shape):
    if shape not in _CACHE:
        z = zoo.Zoo(shape)
        z.fact = zoo.selection_factories(z)
        z.kinds = sorted(z.fact)
        # masks of the parts: every elementary selection evaluated alone on fresh objects
        z.leafmask = {k: np.asarray(z.d.get_mask(z.fact[k]())).copy() for k in z.kinds}
        _CACHE[shape] = z
    return _CACHE[shape]


def views_for(shape):
    nd = len(shape)
    return [None, tuple([slice(0, 1)] + [slice(None)] * (nd - 1)), tuple([slice(None)] * (nd - 1) + [slice(0, None, 2)])]


class AWorld(object):
    def __init__(self, shape, kinds):
        from glue.core.edit_subset_mode import EditSubsetMode
        self.z = get_zoo(shape)
        self.kinds = kinds                      # leaf name -> elementary kind
        self.views = views_for(shape)
        self.pool = [self.z.fact[kinds[l]]() for l in ('s1', 's2', 's3')]
        self.group = None
        self.esm = EditSubsetMode()
        self.esm.data_collection = self.z.dc

    def leaf(self, l):
        return self.z.fact[self.kinds[l]]()

    def step(self, a):
        from glue.core.subset import MultiOrState
        from glue.core import edit_subset_mode as E
        op = a['op']
        P = self.pool
        if op == 'Combine':
            x, y = P[a['i'] - 1], P[a['j'] - 1]
            P.append({'and': lambda: x & y, 'or': lambda: x | y, 'xor': lambda: x ^ y}[a['m']]())
        elif op == 'Invert':
            P.append(~P[a['i'] - 1])
        elif op == 'ManyOr':
            idx = [a['i'], a['j']] + ([a['k']] if a['k'] else [])
            P.append(MultiOrState([P[i - 1] for i in idx]))
        elif op == 'Copy':
            P.append(P[a['i'] - 1].copy())
        elif op == 'Evaluate':
            self.z.d.get_mask(P[a['i'] - 1], view=self.views[a['k'] - 1])
        elif op == 'EditMode':
            mode = {'Replace': E.ReplaceMode, 'And': E.AndMode, 'Or': E.OrMode, 'Xor': E.XorMode, 'AndNot': E.AndNotMode}[a['m']]
            self.esm.mode = mode
            self.esm.update(self.z.dc, self.leaf(a['l']))
            if self.group is None:
                self.group = self.esm.edit_subset[0]
        else:
            raise ValueError(op)

    def expected(self, tt):
        """tt: list of leaf-name lists (the patterns for which the tree holds)."""
        z = self.z
        masks = [z.leafmask[self.kinds[l]] for l in ('s1', 's2', 's3')]
        pats = set(frozenset(p) for p in tt)
        flat = [m.reshape(-1) for m in masks]
        out = np.zeros(flat[0].shape, dtype=bool)
        for e in range(out.size):
            P = frozenset(l for l, f in zip(('s1', 's2', 's3'), flat) if f[e])
            out[e] = P in pats
        return out.reshape(z.shape)

    def compare(self, st, order):
        z = self.z
        idxs = list(range(len(self.pool)))
        if order:
            idxs.reverse()
        for rep in range(2):
            for i in idxs:
                want = self.expected(st['tts'][i])
                for v in (self.views if rep == 0 else self.views[:1]):
                    try:
                        got = z.d.get_mask(self.pool[i], view=v)
                    except Exception as e:
                        return ('tree[%d]' % (i + 1), want.tolist(), 'raised %s: %s' % (type(e).__name__, str(e)[:150]))
                    w = want if v is None else want[v]
                    if np.shape(got) != np.shape(w) or not np.array_equal(np.asarray(got, dtype=bool), w):
                        return ('tree[%d]' % (i + 1), np.asarray(w).tolist(), np.asarray(got).tolist())
        if self.group is not None:
            want = self.expected(st['ett'])
            sub = [s for s in z.d.subsets if getattr(s, 'group', None) is self.group]
            if len(sub) != 1:
                return ('edit_subset', 'one subset on the dataset', len(sub))
            try:
                got = sub[0].to_mask()
            except Exception as e:
                return ('edit_subset', want.tolist(), 'raised %s: %s' % (type(e).__name__, str(e)[:150]))
            if np.shape(got) != np.shape(want) or not np.array_equal(np.asarray(got, dtype=bool), want):
                return ('edit_subset', want.tolist(), np.asarray(got).tolist())
        # the parts themselves are unaltered
        for l in ('s1', 's2', 's3'):
            k = self.kinds[l]
            if not np.array_equal(np.asarray(z.d.get_mask(z.fact[k]())), z.leafmask[k]):
                return ('leaf[%s]' % k, z.leafmask[k].tolist(), 'changed')
        return None

    def close(self):
        if self.group is not None:
            try:
                self.z.dc.remove_subset_group(self.group)
            except Exception:
                pass


def replay_one(beh):
    shape = tuple(beh['shape'])
    w = AWorld(shape, beh['kinds'])
    try:
        for i, stp in enumerate(beh['steps']):
            try:
                w.step(stp['act'])
            except Exception as e:
                import traceback
                return (i, 'exception', 'no exception', '%s: %s' % (type(e).__name__, e), traceback.format_exc()[-500:])
            r = w.compare(stp['st'], i % 2)
            if r is not None:
                return (i, r[0], r[1], r[2], 'kinds %r shape %r' % (beh['kinds'], shape))
    finally:
        w.close()
    return None


def replay_chunk(items, extra):
    use_repo()
    import warnings
    warnings.simplefilter('ignore')
    out = []
    steps = 0
    for it in items:
        steps += len(it['steps'])
        r = replay_one(it)
        if r is not None:
            out.append(Divergence({'spec': 'SubsetAlgebra', 'shape': it['shape'], 'kinds': it['kinds'], 'steps': it['steps']},
                                  r[0], r[1], r[2], r[3], kind=r[1].split('[')[0], note=r[4]).to_json())
    return {'div': out, 'steps': steps, 'n': len(items)}
