"""Adapter for VersionContent.tla (C12, part c): a collection exhibiting a chosen set of features is written with pinned
Data / DataCollection protocol versions and loaded back; every feature the version pair carries must be observed unchanged."""
import numpy as np

from harness.core import use_repo, Divergence

FEATURES = ['style', 'meta', 'uuid', 'join11', 'joinNN', 'derived', 'extlink', 'helper', 'group', 'sgcount', 'coords',
            'categorical', 'subset']


def build(F):
    from glue.core import Data, DataCollection
    from glue.core.component_link import ComponentLink
    from glue.core.coordinates import AffineCoordinates
    from glue.core.link_helpers import LinkSame, identity
    from glue.core.subset import RangeSubsetState
    kw1 = dict(x=np.array([1.0, 2.0, 3.0, 4.0]), y=np.array([4, 5, 6, 7]), k=np.array([0, 1, 1, 2]), k2=np.array([5, 5, 6, 6]))
    if 'categorical' in F:
        kw1['c'] = np.array(['b', 'a', 'b', 'zz'])
    d1 = Data(label='d1', **kw1)
    d3 = Data(label='d3', p=np.array([10.0, 20.0, 30.0]), q=np.array([7, 8, 9]), k3=np.array([1, 2, 3]), k4=np.array([5, 6, 6]))
    kw2 = dict(a=np.array([[1.0, 2.0], [3.0, 4.0]]))
    if 'coords' in F:
        kw2['coords'] = AffineCoordinates(np.array([[2.0, 0.0, 1.0], [0.0, 3.0, -1.0], [0.0, 0.0, 1.0]]))
    d2 = Data(label='d2', **kw2)
    if 'style' in F:
        d1.style.color = '#112233'
        d1.style.markersize = 11
    if 'meta' in F:
        d1.meta['k'] = 'v'
        d1.meta['n'] = 3
    if 'derived' in F:
        d1['g'] = d1.id['x'] * 2 + d1.id['y']
        d1['h'] = d1.id['x'] + 100                  # computed from a single attribute of the same dataset
    dc = DataCollection([d1, d2, d3])
    if 'extlink' in F:
        dc.add_link(ComponentLink([d1.id['x']], d3.id['p'], using=identity))
    if 'helper' in F:
        dc.add_link(LinkSame(d1.id['y'], d3.id['q']))
    if 'join11' in F:
        d1.join_on_key(d3, 'k', 'k3')
    if 'joinNN' in F:
        d1.join_on_key(d3, ('k', 'k2'), ('k3', 'k4')) if 'join11' not in F else d3.join_on_key(d1, ('k3', 'k4'), ('k', 'k2'))
    if 'group' in F:
        g = dc.new_subset_group(subset_state=RangeSubsetState(1.5, 3.5, att=d1.id['x']), label='grp')
        g.style.color = '#445566'
        dc.new_subset_group(subset_state=d3.id['q'] > 7, label='grp2')
    if 'sgcount' in F:
        g = dc.new_subset_group()
        dc.remove_subset_group(g)
    if 'subset' in F:
        s = d3.new_subset(label='alone')
        s.subset_state = d3.id['p'] > 15
    return dc


def _arr(a):
    a = np.asarray(a)
    if a.dtype.kind in 'fc':
        return ['%r' % float(v) for v in a.reshape(-1)]
    return [str(v) for v in a.reshape(-1)]


def _try(f):
    try:
        return f()
    except Exception as e:
        return 'raised %s' % type(e).__name__


def observe(dc, F):
    """feature -> JSON-able observation (only of features the collection was built with)"""
    from glue.core.subset import RangeSubsetState
    by = dict((d.label, d) for d in dc)
    o = {}
    o['values'] = [[d.label, [[c.label, _arr(d[c])] for c in d.main_components if c.label not in ('g', 'h')]] for d in dc]
    # structure of the link bookkeeping: links between datasets only among the external links, no link listed twice
    def internal(link):
        try:
            owners = set(id(c.parent) for c in list(link.get_from_ids()) + [link.get_to_id()])
            return len(owners) == 1
        except Exception:
            return False
    o['links'] = _try(lambda: [sum(1 for l in dc.external_links if internal(l)), len(dc.links) - len(set(id(l) for l in dc.links)),
                               sorted(str(l) for l in dc.links) == sorted(set(str(l) for l in dc.links))])
    d1, d2, d3 = by.get('d1'), by.get('d2'), by.get('d3')
    if d1 is None or d2 is None or d3 is None:
        return o
    if 'style' in F:
        o['style'] = [d1.style.color, d1.style.markersize]
    if 'meta' in F:
        o['meta'] = sorted((str(k), str(v)) for k, v in d1.meta.items())
    if 'uuid' in F:
        o['uuid'] = [d.uuid for d in dc]
    if 'derived' in F:
        o['derived'] = _try(lambda: [[c.label for c in d1.derived_components if c.label in ('g', 'h')], _arr(d1['g']), _try(lambda: _arr(d1['h']))])
    if 'extlink' in F:
        o['extlink'] = _try(lambda: _arr(d1[d3.id['p']]))
    if 'helper' in F:
        o['helper'] = _try(lambda: [_arr(d1[d3.id['q']]), _arr(d3[d1.id['y']])])
    if 'join11' in F:
        o['join11'] = _try(lambda: [bool(v) for v in d1.get_mask(d3.id['q'] > 7)])
    if 'joinNN' in F:
        if 'join11' in F:
            o['joinNN'] = _try(lambda: [bool(v) for v in d3.get_mask(d1.id['x'] > 2.5)])
        else:
            o['joinNN'] = _try(lambda: [bool(v) for v in d1.get_mask(d3.id['q'] > 7)])
    if 'group' in F:
        # masks only on the dataset that owns the attribute of the selection: the others depend on links/joins (other features)
        own = {'grp': 'd1', 'grp2': 'd3'}
        o['group'] = _try(lambda: [[g.label, g.style.color, [s.data.label for s in g.subsets],
                                    [[s.data.label, _try(lambda: [bool(v) for v in s.to_mask()])] for s in g.subsets if s.data.label == own.get(g.label)]]
                                   for g in dc.subset_groups])
    if 'sgcount' in F:
        o['sgcount'] = _try(lambda: dc.new_subset_group().label)
    if 'coords' in F:
        o['coords'] = _try(lambda: [[c.label, _arr(d2[c])] for c in d2.world_component_ids])
    if 'categorical' in F:
        o['categorical'] = _try(lambda: [_arr(d1['c']), _arr(d1.get_component(d1.id['c']).codes), _arr(d1.get_component(d1.id['c']).categories)])
    if 'subset' in F:
        al = [s for s in d3.subsets if s.label == 'alone']
        o['subset'] = _try(lambda: [len(al), [bool(v) for v in al[0].to_mask()]])
    return o


def roundtrip(dc, dv, cv):
    from glue.core import Data, DataCollection
    from glue.core.state import GlueSerializer, GlueUnSerializer
    types = {Data: dv, DataCollection: cv}

    class Pinned(GlueSerializer):
        def _dispatch(self, obj):
            for typ, ver in types.items():
                if type(obj) is typ:
                    return self.dispatch.get_version(typ, ver), ver
            return super(Pinned, self)._dispatch(obj)
    text = Pinned(dc).dumps()
    return GlueUnSerializer.loads(text).object('__main__')


def check_one(dv, cv, F, exp):
    dc = build(F)
    # uuid must be read before saving; sgcount observation mutates: observe the original on a second copy
    before = observe(build(F), F)
    if 'uuid' in F:
        before['uuid'] = [d.uuid for d in dc]
    try:
        dc2 = roundtrip(dc, dv, cv)
    except Exception as e:
        return ('roundtrip', 'a restored collection', 'raised %s: %s' % (type(e).__name__, str(e)[:200]))
    after = observe(dc2, F)
    for k in ['values', 'links'] + [f for f in FEATURES if f in exp]:
        if before.get(k) != after.get(k):
            return (k, before.get(k), after.get(k))
    return None


def replay_chunk(items, extra):
    use_repo()
    import warnings
    warnings.simplefilter('ignore')
    out = []
    for it in items:
        r = check_one(it['dv'], it['cv'], it['F'], it['exp'])
        if r is not None:
            out.append(Divergence({'spec': 'VersionContent', 'dv': it['dv'], 'cv': it['cv'], 'F': it['F'], 'exp': it['exp']}, 0,
                                  '%s[Data v%d, DataCollection v%d]' % (r[0], it['dv'], it['cv']), r[1], r[2],
                                  kind='content:%s:Dv%d:Cv%d' % (r[0], it['dv'], it['cv'])).to_json())
    return {'div': out, 'steps': len(items), 'n': len(items)}
