"""Adapter for Versions.tla (C12): VersionedDict replay, extraction of registries/rename table, pinned-version round trips."""
import importlib
import numpy as np

from harness.core import use_repo, Divergence


def replay_one(beh):
    from glue.core.state import VersionedDict
    v = VersionedDict()
    for i, stp in enumerate(beh['steps']):
        a, want = stp['act'], stp['last']
        op, k, ver = a['op'], a['k'], a['v']
        ok, val = True, 0
        try:
            if op == 'Set':
                v[k, ver] = 'value-%s-%d' % (k, ver)
                val = ver
            elif op == 'Get':
                val = v[k][1]
                if v[k][0] != 'value-%s-%d' % (k, val):
                    return (i, 'get_value', 'value-%s-%d' % (k, val), v[k][0])
            elif op == 'GetVersion':
                got = v.get_version(k, ver)
                val = ver
                if got != 'value-%s-%d' % (k, ver):
                    return (i, 'get_version_value', 'value-%s-%d' % (k, ver), got)
            elif op == 'Contains':
                ok = k in v
            elif op == 'Delete':
                del v[k]
        except (KeyError, ValueError):
            ok, val = False, 0
        if ok != want['ok'] or (ok and op in ('Get', 'GetVersion', 'Set') and val != want['val']):
            return (i, 'result[%s]' % op, want, {'ok': ok, 'val': val})
        # the whole abstract state after every call
        for key, vers in stp['vd'].items():
            present = key in v
            if present != bool(vers):
                return (i, 'contains[%s]' % key, bool(vers), present)
            for x in range(0, 5):
                try:
                    v.get_version(key, x)
                    has = True
                except KeyError:
                    has = False
                if has != (x in vers):
                    return (i, 'versions[%s]' % key, sorted(vers), 'version %d %s' % (x, 'present' if has else 'absent'))
    return None


def replay_chunk(items, extra):
    use_repo()
    out = []
    steps = 0
    for it in items:
        steps += len(it['steps'])
        r = replay_one(it)
        if r is not None:
            out.append(Divergence({'spec': 'Versions', 'steps': it['steps']}, r[0], r[1], r[2], r[3], kind=r[1].split('[')[0]).to_json())
    return {'div': out, 'steps': steps, 'n': len(items)}


def extract():
    """Registries and rename table of the current tree, as TLA+ constants."""
    use_repo()
    import warnings
    warnings.simplefilter('ignore')
    from glue.core import state as S
    # make sure every module that registers savers/loaders or defines serialisable classes is imported
    for m in ('glue.viewers.common.viewer', 'glue.viewers.image.state', 'glue.viewers.scatter.state', 'glue.viewers.histogram.state',
              'glue.viewers.profile.state', 'glue.viewers.histogram.layer_artist', 'glue.viewers.profile.layer_artist',
              'glue.viewers.scatter.layer_artist', 'glue.viewers.image.layer_artist', 'glue.core.link_helpers',
              'glue.core.coordinates', 'glue.core.roi_pretransforms', 'glue.plugins.coordinate_helpers.link_helpers'):
        try:
            importlib.import_module(m)
        except Exception:
            pass
    reg = set()
    for role, d in (('saver', S.GlueSerializer.dispatch._data), ('loader', S.GlueUnSerializer.dispatch._data)):
        for t, vers in d.items():
            for v in vers:
                reg.add((t.__module__ + '.' + t.__name__, role, int(v)))
    patch = set(S.PATH_PATCHES.items())

    def resolves(path):
        try:
            S.lookup_class(path)
            return True
        except Exception:
            return False
    keys = set(k for k, _ in patch)
    targets = set(t for _, t in patch)
    import inspect

    def concrete(path):
        """a class this tree still defines, that can be instantiated and serialised (so its path is written as _type)"""
        try:
            obj = S.lookup_class(path)
        except Exception:
            return False
        if not inspect.isclass(obj) or inspect.isabstract(obj):
            return False
        return hasattr(obj, '__gluestate__') or any(m in S.GlueSerializer.dispatch._data for m in obj.__mro__)
    defined = set(k for k in keys if concrete(k))
    inpkg = set(t for t in targets | keys if t.startswith('glue.'))
    importable = set(t for t in inpkg if resolves(t))
    return {'reg': sorted(reg), 'patch': sorted(patch), 'defined': sorted(defined), 'inpkg': sorted(inpkg),
            'importable': sorted(importable)}


def gen_module(c):
    def s(x):
        return '"' + x.replace('\\', '\\\\').replace('"', '\\"') + '"'
    def strset(xs):
        return '{' + ', '.join(s(x) for x in xs) + '}'
    lines = ['---- MODULE Versions_Gen ----', '\\* generated from the current tree by harness/adapters/versions.py',
             'g_Reg == {' + ', '.join('<<%s, %s, %d>>' % (s(t), s(r), v) for t, r, v in c['reg']) + '}',
             'g_Patch == {' + ', '.join('<<%s, %s>>' % (s(a), s(b)) for a, b in c['patch']) + '}',
             'g_DataVers == {%s}' % ', '.join(str(v) for t, r, v in c['reg'] if t == 'glue.core.data.Data' and r == 'saver'),
             'g_DCVers == {%s}' % ', '.join(str(v) for t, r, v in c['reg'] if t == 'glue.core.data_collection.DataCollection' and r == 'saver'),
             'g_Defined == ' + strset(c['defined']), 'g_InPkg == ' + strset(c['inpkg']), 'g_Importable == ' + strset(c['importable']), '====', '']
    return '\n'.join(lines)


def pinned_roundtrips():
    """For every (type, version) registered for Data and DataCollection: write with that version's saver, load with the
    normal unserializer, compare the fields that version carries. Returns list of (component, expected, actual)."""
    use_repo()
    import warnings
    warnings.simplefilter('ignore')
    from glue.core import Data, DataCollection
    from glue.core.state import GlueSerializer, GlueUnSerializer
    from glue.core.component_link import ComponentLink
    from glue.core.subset import RangeSubsetState
    out = []

    def build():
        d1 = Data(label='d1', x=np.array([1.0, 2.0, 3.0]), y=np.array([4, 5, 6]))
        d2 = Data(label='d2', a=np.array([[1.0, 2.0], [3.0, 4.0]]))
        d1.style.color = '#112233'
        d1.meta['k'] = 'v'
        dc = DataCollection([d1, d2])
        dc.new_subset_group(subset_state=RangeSubsetState(1.5, 3.5, att=d1.id['x']), label='grp')
        return dc

    def pinned(types):
        class Pinned(GlueSerializer):
            def _dispatch(self, obj):
                for typ, ver in types.items():
                    if type(obj) is typ:
                        return self.dispatch.get_version(typ, ver), ver
                return super(Pinned, self)._dispatch(obj)
        return Pinned

    data_versions = sorted(GlueSerializer.dispatch._data[Data])
    dc_versions = sorted(GlueSerializer.dispatch._data[DataCollection])
    for dv in data_versions:
        for cv in dc_versions:
            dc = build()
            try:
                text = pinned({Data: dv, DataCollection: cv})(dc).dumps()
                dc2 = GlueUnSerializer.loads(text).object('__main__')
            except Exception as e:
                out.append(('roundtrip[Data v%d, DataCollection v%d]' % (dv, cv), 'loads', 'raised %s: %s' % (type(e).__name__, str(e)[:200])))
                continue
            tag = '[Data v%d, DataCollection v%d]' % (dv, cv)
            if [d.label for d in dc2] != ['d1', 'd2']:
                out.append(('labels' + tag, ['d1', 'd2'], [d.label for d in dc2]))
                continue
            for d, e in zip(dc, dc2):
                la = [c.label for c in d.main_components]
                lb = [c.label for c in e.main_components]
                if la != lb:
                    out.append(('components' + tag, la, lb))
                    continue
                for c in la:
                    if not np.array_equal(np.asarray(d[c]), np.asarray(e[c])):
                        out.append(('values' + tag, np.asarray(d[c]).tolist(), np.asarray(e[c]).tolist()))
            if dv >= 2 and dc2[0].style.color != '#112233':
                out.append(('style' + tag, '#112233', dc2[0].style.color))
            if dv >= 5 and dict(dc2[0].meta).get('k') != 'v':
                out.append(('meta' + tag, 'v', dict(dc2[0].meta).get('k')))
            if cv >= 2:
                if len(dc2.subset_groups) != 1:
                    out.append(('groups' + tag, 1, len(dc2.subset_groups)))
                else:
                    m = [bool(x) for x in dc2[0].subsets[0].to_mask()] if dc2[0].subsets else None
                    if m != [False, True, True]:
                        out.append(('group_mask' + tag, [False, True, True], m))
    return out, len(data_versions) * len(dc_versions)


def _cycle_keys(patch):
    d = dict(patch)
    bad = []
    for k in d:
        seen, x = set(), k
        while x in d and x not in seen:
            seen.add(x)
            x = d[x]
        if x in d:
            bad.append(k)
    return sorted(bad)


def witness(inv, c):
    """A small description of why a clause over the extracted constants fails (for the report)."""
    reg = c['reg']
    if inv == 'Reg_Consecutive':
        out = []
        for t in sorted(set(r[0] for r in reg)):
            for role in ('saver', 'loader'):
                vs = sorted(r[2] for r in reg if r[0] == t and r[1] == role)
                if vs and vs != list(range(1, vs[-1] + 1)):
                    out.append([t, role, vs])
        return out
    if inv == 'Reg_LoaderForEverySaver':
        out = []
        for t in sorted(set(r[0] for r in reg)):
            sv = set(r[2] for r in reg if r[0] == t and r[1] == 'saver')
            lv = set(r[2] for r in reg if r[0] == t and r[1] == 'loader')
            if lv and not sv <= lv:
                out.append([t, sorted(sv - lv)])
        return out
    if inv == 'Patch_Functional':
        keys = [k for k, _ in c['patch']]
        return sorted(set(k for k in keys if keys.count(k) > 1))
    if inv == 'Patch_Terminates':
        return _cycle_keys(c['patch'])
    if inv == 'Patch_TargetsResolve':
        d = dict(c['patch'])
        out = []
        for k in d:
            x, n = k, 0
            while x in d and n <= len(d):
                x, n = d[x], n + 1
            if x in c['inpkg'] and x not in c['importable']:
                out.append([k, x])
        return sorted(out)
    return None


def without(inv, c):
    """The constants with the entries that violate `inv` removed (so that the remaining clauses are still evaluated)."""
    c = dict(c)
    if inv == 'Patch_Terminates':
        bad = set(_cycle_keys(c['patch']))
        c['patch'] = [p for p in c['patch'] if p[0] not in bad]
    elif inv == 'Patch_Functional':
        seen, keep = set(), []
        for p in c['patch']:
            if p[0] not in seen:
                keep.append(p)
                seen.add(p[0])
        c['patch'] = keep
    elif inv == 'Patch_TargetsResolve':
        bad = set(k for k, _ in witness(inv, c))
        c['patch'] = [p for p in c['patch'] if p[0] not in bad]
    elif inv in ('Reg_Consecutive', 'Reg_LoaderForEverySaver'):
        bad = set(w[0] for w in witness(inv, c))
        c['reg'] = [r for r in c['reg'] if r[0] not in bad]
    return c


def resolution_problems(terminals, consts):
    """The rename table as the IMPLEMENTATION resolves it (lookup_class_with_patches) against where Versions.tla says every old
    name must end up (Terminals, computed by TLC): when the end of the chain is an importable object of this package, the
    implementation must return exactly that object."""
    use_repo()
    from glue.core import state as S
    import signal
    out = []
    importable = set(consts['importable'])

    class _Timeout(Exception):
        pass

    def on_alarm(signum, frame):
        raise _Timeout()
    old = signal.signal(signal.SIGALRM, on_alarm)
    try:
        for k, end in sorted(terminals.items()):
            if end not in importable:
                continue
            want = S.lookup_class(end)
            signal.alarm(5)
            try:
                got = S.lookup_class_with_patches(k)
            except _Timeout:
                out.append(('patch_resolution[%s]' % k, end, 'did not terminate within 5 s'))
                continue
            except Exception as e:
                out.append(('patch_resolution[%s]' % k, end, 'raised %s: %s' % (type(e).__name__, str(e)[:150])))
                continue
            finally:
                signal.alarm(0)
            if got is not want:
                out.append(('patch_resolution[%s]' % k, end, '%s.%s' % (getattr(got, '__module__', '?'), getattr(got, '__name__', got))))
    finally:
        signal.signal(signal.SIGALRM, old)
    return out
