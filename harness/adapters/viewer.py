"""E1 adapter for Viewer.tla (C18): real viewers (the base Viewer and the four matplotlib viewers) following collection
and viewer operations; the ComponentIDComboHelper following attribute and filter changes."""
import numpy as np

from harness.core import use_repo, Divergence

VIEWERS = ['base', 'scatter', 'histogram', 'image', 'profile']


def viewer_class(kind):
    if kind == 'base':
        from glue.viewers.common.viewer import Viewer
        return Viewer
    if kind == 'scatter':
        from glue.viewers.scatter.viewer import SimpleScatterViewer
        return SimpleScatterViewer
    if kind == 'histogram':
        from glue.viewers.histogram.viewer import SimpleHistogramViewer
        return SimpleHistogramViewer
    if kind == 'image':
        from glue.viewers.image.viewer import SimpleImageViewer
        return SimpleImageViewer
    from glue.viewers.profile.viewer import SimpleProfileViewer
    return SimpleProfileViewer


class Bundle(object):
    """Application + viewers as one serialisable object (the base Application does not track its viewers)."""

    def __init__(self, app, viewers):
        self.app = app
        self.viewers = viewers

    def __gluestate__(self, context):
        return dict(session=context.id(self.app.session), data=context.id(self.app.data_collection),
                    viewers=[context.id(v) for v in self.viewers])

    @classmethod
    def __setgluestate__(cls, rec, context):
        from glue.core.application_base import Application
        app = Application(data_collection=context.object(rec['data']))
        context.register_object(rec['session'], app.session)
        return cls(app, [context.object(v) for v in rec['viewers']])


class VWorld(object):
    def __init__(self, kind):
        from glue.core.application_base import Application
        from glue.core import Data
        self.kind = kind
        self.app = Application()
        self.dc = self.app.data_collection
        self.data = {n: Data(label=n, x=np.arange(12, dtype=float).reshape(3, 4) + k, y=(np.arange(12, dtype=float).reshape(3, 4) * 2) % 5)
                     for k, n in enumerate(('d1', 'd2', 'd3'))}
        self.viewer = self.app.new_data_viewer(viewer_class(kind))
        self.groups = {}
        self.alone = {}
        self.blocks = []

    def subset_of(self, d, x):
        if x == 9:
            return self.alone[d]
        return [s for s in self.data[d].subsets if getattr(s, 'group', None) is self.groups[x]][0]

    def step(self, a):
        op, d, x = a['op'], a['d'], a['x']
        if op == 'Append':
            self.dc.append(self.data[d])
        elif op == 'Remove':
            self.dc.remove(self.data[d])
        elif op == 'NewGroup':
            from glue.core.subset import ElementSubsetState
            self.groups[x] = self.dc.new_subset_group(subset_state=ElementSubsetState(indices=[0, x]))
        elif op == 'RemoveGroup':
            self.dc.remove_subset_group(self.groups[x])
        elif op == 'NewAlone':
            from glue.core.subset import ElementSubsetState
            self.alone[d] = self.data[d].new_subset(label='alone-' + d)
            self.alone[d].subset_state = ElementSubsetState(indices=[1, 2])
        elif op == 'DeleteAlone':
            self.alone.pop(d).delete()
        elif op == 'RemoveLayer':
            self.viewer.remove_layer(self.data[d] if x == 0 else self.subset_of(d, x))
        elif op == 'AddSubsetLayer':
            self.viewer.add_subset(self.subset_of(d, x))
        elif op == 'ViewerAddData':
            self.viewer.add_data(self.data[d])
        elif op == 'ViewerRemoveData':
            self.viewer.remove_data(self.data[d])
        elif op == 'DelayEnter':
            cm = self.dc.hub.delay_callbacks()
            cm.__enter__()
            self.blocks.append(cm)
        elif op == 'DelayExit':
            self.blocks.pop().__exit__(None, None, None)
        elif op == 'SaveRestoreViewer':
            from glue.core.state import GlueSerializer, GlueUnSerializer
            text = GlueSerializer(Bundle(self.app, [self.viewer])).dumps()
            b = GlueUnSerializer.loads(text).object('__main__')
            names = [self.name_of(dd) for dd in self.dc.data]
            gids = [self.gid(g) for g in self.dc.subset_groups]
            self.app, self.viewer = b.app, b.viewers[0]
            self.dc = self.app.data_collection
            for n, dd in zip(names, self.dc.data):
                self.data[n] = dd
            from glue.core import Data
            for k, n in enumerate(('d1', 'd2', 'd3')):
                if n not in names:      # datasets outside the collection belonged to the old session
                    self.data[n] = Data(label=n, x=np.arange(12, dtype=float).reshape(3, 4) + k, y=(np.arange(12, dtype=float).reshape(3, 4) * 2) % 5)
            self.groups = {i: g for i, g in zip(gids, self.dc.subset_groups)}
            for n in list(self.alone):
                if n in names:
                    found = [sub for sub in self.data[n].subsets if sub.label == 'alone-' + n]
                    if found:
                        self.alone[n] = found[0]
                    else:
                        self.alone.pop(n)
                else:
                    self.alone.pop(n)
        else:
            raise ValueError(op)

    def name_of(self, dobj):
        for k, v in self.data.items():
            if v is dobj:
                return k
        return '?'

    def gid(self, g):
        for k, v in self.groups.items():
            if v is g:
                return k
        return -1

    def layer_key(self, layer):
        from glue.core.data import BaseData
        if isinstance(layer, BaseData):
            return [self.name_of(layer), 0]
        if layer.label.startswith('alone-') and getattr(layer, 'group', None) is None:
            return [self.name_of(layer.data), 9]
        return [self.name_of(layer.data), self.gid(getattr(layer, 'group', None))]

    def picker_problems(self):
        """every selection property of the viewer state: the selection is one of the choices (or nothing when there is none), and
        attribute choices belong to datasets of the collection"""
        from echo import SelectionCallbackProperty
        from glue.core.component_id import ComponentID
        from glue.core.data import BaseData
        st = self.viewer.state
        for name in dir(type(st)):
            prop = getattr(type(st), name, None)
            if not isinstance(prop, SelectionCallbackProperty):
                continue
            try:
                choices = [c for c in prop.get_choices(st) if not _is_separator(c)]
            except Exception:
                continue
            sel = getattr(st, name)
            if not choices:
                if sel is not None:
                    return ('picker[%s]' % name, None, str(sel), 'nothing to choose from but something is selected')
                continue
            if not any(sel is c or (not isinstance(c, (ComponentID, BaseData)) and sel == c) for c in choices):
                return ('picker[%s]' % name, 'one of %s' % [str(c) for c in choices], str(sel), 'the selection is not among the choices')
            for c in choices:
                owner = c.parent if isinstance(c, ComponentID) else (c if isinstance(c, BaseData) else None)
                if isinstance(owner, BaseData) and owner not in self.dc:
                    return ('picker_stale[%s]' % name, 'choices from datasets of the collection', '%s of %s' % (c, owner.label),
                            'the picker offers something of a dataset that is no longer in the collection')
        return None

    def project(self):
        v = self.viewer
        a = [self.layer_key(l.layer) for l in v.layers]
        b = [self.layer_key(s.layer) for s in v.state.layers]
        return a, b

    def close(self):
        while self.blocks:
            try:
                self.blocks.pop().__exit__(None, None, None)
            except Exception:
                pass
        try:
            import matplotlib.pyplot as plt
            plt.close('all')
        except Exception:
            pass


def replay_layers(beh):
    w = VWorld(beh['viewer'])
    try:
        for i, stp in enumerate(beh['steps']):
            a, st = stp['act'], stp['st']
            try:
                w.step(a)
            except Exception as e:
                import traceback
                return (i, 'exception[%s]' % a['op'], 'no exception', '%s: %s' % (type(e).__name__, str(e)[:200]), traceback.format_exc()[-400:])
            if st['delay'] != 0:
                continue
            want = sorted([list(k) for k in st['layers']])
            la, lb = w.project()
            if sorted(la) != want:
                return (i, 'viewer.layers', want, sorted(la), 'after %s' % a['op'])
            if la != lb:
                return (i, 'state.layers', la, lb, 'viewer.layers and viewer.state.layers disagree after %s' % a['op'])
            if beh['viewer'] != 'base':
                pp = w.picker_problems()
                if pp is not None:
                    return (i, pp[0], pp[1], pp[2], pp[3] + ' (after %s)' % a['op'])
            if beh['viewer'] == 'image' and any(k[1] == 0 for k in la):
                s = w.viewer.state
                if s.reference_data is None or w.name_of(s.reference_data) not in [k[0] for k in la]:
                    return (i, 'image_reference', 'a dataset with a layer in the viewer', str(s.reference_data), 'after %s' % a['op'])
                for name in ('x_att_world', 'y_att_world'):
                    ch = [c for c in getattr(type(s), name).get_choices(s) if not _is_separator(c)]
                    if len(ch) != s.reference_data.ndim or any(c.parent is not s.reference_data for c in ch):
                        return (i, 'image_axis_choices[%s]' % name, 'the %d axes of %s' % (s.reference_data.ndim, s.reference_data.label),
                                [str(c) for c in ch], 'after %s' % a['op'])
                    if getattr(s, name) is None:
                        return (i, 'image_axis_selection[%s]' % name, 'one of the axes', None, 'after %s' % a['op'])
                if s.x_att_world is s.y_att_world:
                    return (i, 'image_axes_world', 'two distinct axes', '%s / %s' % (s.x_att_world, s.y_att_world), 'after %s' % a['op'])
                if s.x_att is s.y_att or s.x_att not in s.reference_data.pixel_component_ids or s.y_att not in s.reference_data.pixel_component_ids:
                    return (i, 'image_axes', 'two distinct pixel axes of the reference data', '%s / %s' % (s.x_att, s.y_att), None)
    finally:
        w.close()
    return None


# ------------------------------------------------------------------------------------------------
# pickers

class PWorld(object):
    def __init__(self):
        from glue.core import Data, DataCollection
        from glue.core.state_objects import State
        from glue.core.data_combo_helper import ComponentIDComboHelper
        from echo import SelectionCallbackProperty

        class S(State):
            att = SelectionCallbackProperty()
        self.data = {n: Data(label=n, a=np.array([1.0, 2.0, 3.0])) for n in ('d1', 'd2')}
        self.dc = DataCollection(list(self.data.values()))
        self.state = S()
        self.helper = ComponentIDComboHelper(self.state, 'att', data_collection=self.dc)

    def step(self, a):
        op, d, x = a['op'], a['d'], a['x']
        if op == 'PickerAddData':
            self.helper.append_data(self.data[d])
        elif op == 'PickerRemoveData':
            self.helper.remove_data(self.data[d])
        elif op == 'AttrAdd':
            dd = self.data[d]
            if x['k'] == 'num':
                dd.add_component(np.array([4.0, 5.0, 6.0]), x['n'])
            elif x['k'] == 'cat':
                dd.add_component(np.array(['p', 'q', 'p']), x['n'])
            elif x['k'] == 'time':
                dd.add_component(np.datetime64('2022-01-01') + np.arange(3) * np.timedelta64(1, 'D'), x['n'])
            else:
                dd[x['n']] = dd.id['a'] * 2
        elif op == 'AttrRemove':
            dd = self.data[d]
            dd.remove_component(dd.id[x['n']])
        elif op == 'AttrReorder':
            dd = self.data[d]
            main = [c for c in dd.components if c in dd.main_components or c in dd.derived_components]
            # rotate the stored/derived attributes as the model does: head goes last (coordinate attributes stay first)
            coords = [c for c in dd.components if c not in main]
            by_label = {c.label: c for c in main}
            order = [by_label[n] for n in x] if isinstance(x, list) else main[1:] + main[:1]
            dd.reorder_components(coords + order)
        elif op == 'SetFilter':
            self.helper.numeric = x['numeric']
            self.helper.categorical = x['categorical']
            self.helper.derived = x['derived']
            self.helper.datetime = x.get('datetime', True)
        elif op == 'Select':
            choices = [c for c in self.helper.choices if not _is_separator(c)]
            self.state.att = choices[x - 1]
        else:
            raise ValueError(op)

    def project(self):
        ch = []
        for c in self.helper.choices:
            if _is_separator(c):
                continue
            ch.append([c.parent.label, c.label])
        s = self.state.att
        return ch, (None if s is None else [s.parent.label, s.label])


def _is_separator(c):
    from echo.selection import ChoiceSeparator
    return isinstance(c, ChoiceSeparator)


def replay_picker(beh):
    w = PWorld()
    for i, stp in enumerate(beh['steps']):
        a, st = stp['act'], stp['st']
        try:
            if a['op'] == 'AttrReorder':
                a = dict(a)
                a['x'] = [t['n'] for t in st['attrs'][a['d']]]
            w.step(a)
        except Exception as e:
            import traceback
            return (i, 'exception[%s]' % a['op'], 'no exception', '%s: %s' % (type(e).__name__, str(e)[:200]), traceback.format_exc()[-400:])
        want = [[c['d'], c['n']] for c in st['choices']]
        ch, sel = w.project()
        if ch != want:
            return (i, 'choices', want, ch, 'after %s' % a['op'])
        if not want:
            if sel is not None:
                return (i, 'selection', None, sel, 'nothing to choose')
        elif sel not in want:
            return (i, 'selection', 'one of the choices', sel, 'after %s' % a['op'])
        elif st['sel']['d'] != '?' and sel != [st['sel']['d'], st['sel']['n']]:
            return (i, 'selection_kept', [st['sel']['d'], st['sel']['n']], sel, 'the selected attribute is still a choice but the selection changed')
    return None


def replay_chunk(items, extra):
    use_repo()
    import warnings
    warnings.simplefilter('ignore')
    import matplotlib
    matplotlib.use('Agg')
    out = []
    steps = 0
    for it in items:
        steps += len(it['steps'])
        r = replay_layers(it) if it['part'] == 1 else replay_picker(it)
        if r is not None:
            out.append(Divergence({'spec': 'Viewer', 'part': it['part'], 'viewer': it.get('viewer'), 'steps': it['steps']}, r[0], r[1], r[2], r[3],
                                  kind='%s:%s' % (r[1].split('[')[0], it.get('viewer', 'picker')), note=r[4]).to_json())
    return {'div': out, 'steps': steps, 'n': len(items)}
