"""E1 adapter for Views.tla (C04): every (shape, view) configuration enumerated by TLC is applied to every attribute
kind and every elementary selection kind of a zoo dataset of that shape; the viewed request must equal the full-size
result re-indexed through the index map computed by TLC (never through numpy indexing)."""
import numpy as np

from harness.core import use_repo, Divergence
from harness import zoo

_ZOO = {}


def get_zoo(shape):
    z = _ZOO.get(shape)
    if z is None:
        z = zoo.Zoo(shape)
        full = {}
        for k, cid in z.attributes().items():
            full['a:' + k] = np.asarray(z.d[cid])
        for k, f in zoo.selection_factories(z).items():
            full['s:' + k] = np.asarray(z.d.get_mask(f()))
        z.full = full
        z.fact = zoo.selection_factories(z)
        _ZOO[shape] = z
    return z


def concretise(cfg, variant):
    kind = cfg['kind']
    shape = tuple(cfg['shape'])
    if kind == 'none':
        return None
    if kind == 'ellipsis':
        return Ellipsis
    if kind == 'tuple':
        out = []
        for k, it in enumerate(cfg['items']):
            n = shape[k]
            if it['t'] == 'int':
                i = it['b']
                out.append(i - n if (variant and i == n - 1) else i)
            else:
                b, e, s = it['b'], it['e'], it['s']
                if variant:
                    out.append(slice(None if b == 0 else b, None if e == n else e, None if s == 1 else s))
                else:
                    out.append(slice(b, e, s))
        return tuple(out)
    if kind == 'arrays':
        pts = cfg['pts']
        return tuple(np.array([p[k] for p in pts]) for k in range(len(shape)))
    if kind == 'mask':
        m = np.zeros(int(np.prod(shape)), dtype=bool)
        m[list(cfg['mask'])] = True
        return m.reshape(shape)
    raise ValueError(kind)


def expected(full, exp):
    flat = np.asarray(full).reshape(-1)
    src = list(exp['src'])
    if len(src) == 0:
        return flat[:0].reshape(tuple(exp['rshape']))
    out = np.array([flat[j] for j in src], dtype=flat.dtype)
    return out.reshape(tuple(exp['rshape']))


def check_config(cfg, exp, variant):
    """Returns list of (component, expected, actual, note)."""
    shape = tuple(cfg['shape'])
    zfull = get_zoo(shape)             # full-size results, computed once on objects that are never asked for a view
    z = zoo.Zoo(shape)                 # the viewed requests go to a FRESH dataset: nothing was evaluated on it before
    z.full = zfull.full
    z.fact = zoo.selection_factories(z)
    view = concretise(cfg, variant)
    bad = []
    for k, cid in z.attributes().items():
        want = expected(z.full['a:' + k], exp)
        try:
            got = z.d[cid, view] if view is not None else z.d[cid]
        except Exception as e:
            bad.append(('values[%s]' % k, want.tolist(), 'raised %s: %s' % (type(e).__name__, str(e)[:200]), None))
            continue
        if not zoo.same(got, want):
            bad.append(('values[%s]' % k, want.tolist(), np.asarray(got).tolist(), 'shape %s vs %s' % (np.shape(got), want.shape)))
    for k, f in z.fact.items():
        want = expected(z.full['s:' + k], exp)
        try:
            got = z.d.get_mask(f(), view=view)
        except Exception as e:
            bad.append(('mask[%s]' % k, want.tolist(), 'raised %s: %s' % (type(e).__name__, str(e)[:200]), None))
            continue
        if not zoo.same(got, want):
            bad.append(('mask[%s]' % k, want.tolist(), np.asarray(got).tolist(), 'shape %s vs %s' % (np.shape(got), want.shape)))
    # shared operands: a composite evaluated under the view, then its (memoised) operand under the same view - the operand's
    # answer must not depend on what was asked before
    from glue.core.subset import MultiOrState
    want_a = expected(z.full['s:ineq_eq_int'], exp)
    for op in ('mor', 'or', 'and', 'xor', 'not'):
        a, b = z.fact['ineq_eq_int'](), z.fact['range']()
        comp = {'mor': lambda: MultiOrState([a, b]), 'or': lambda: a | b, 'and': lambda: a & b, 'xor': lambda: a ^ b, 'not': lambda: ~a}[op]()
        try:
            z.d.get_mask(comp, view=view)
            got = z.d.get_mask(a, view=view)
        except Exception as e:
            bad.append(('mask_after_composite[%s]' % op, want_a.tolist(), 'raised %s: %s' % (type(e).__name__, str(e)[:200]), None))
            continue
        if not zoo.same(got, want_a):
            bad.append(('mask_after_composite[%s]' % op, want_a.tolist(), np.asarray(got).tolist(), 'operand evaluated after the composite'))
    return bad


def replay_chunk(items, extra):
    use_repo()
    import warnings
    warnings.simplefilter('ignore')
    out = []
    n_eval = 0
    for it in items:
        res = check_config(it['cfg'], it['exp'], it.get('variant', 0))
        z = get_zoo(tuple(it['cfg']['shape']))
        n_eval += len(z.full)
        seen = set()
        for comp, exp, act, note in res:
            kind = comp
            if kind in seen:
                continue
            seen.add(kind)
            out.append(Divergence({'spec': 'Views', 'cfg': it['cfg'], 'exp': it['exp'], 'variant': it.get('variant', 0)},
                                  0, comp, exp, act, kind=kind, note=note).to_json())
    return {'div': out, 'steps': n_eval, 'n': len(items)}


# ------------------------------------------------------------------------------------------------
# IndexedData: configurations whose items are integers or full slices define the indices

def indexed_chunk(items, extra):
    """items: {'first': cfg+exp, 'second': cfg+exp, 'views': [cfg+exp on the reduced shape]}"""
    use_repo()
    import warnings
    warnings.simplefilter('ignore')
    from glue.core.data_derived import IndexedData
    out = []
    n_eval = 0
    for it in items:
        shape = tuple(it['first']['cfg']['shape'])
        z = get_zoo(shape)
        idx = lambda c: tuple(x['b'] if x['t'] == 'int' else None for x in c['cfg']['items'])
        try:
            idata = IndexedData(z.d, idx(it['first']))
        except Exception as e:
            out.append(Divergence({'spec': 'Views/IndexedData', 'item': it}, 0, 'indexed_create', 'IndexedData', 
                                  'raised %s: %s' % (type(e).__name__, e)).to_json())
            continue
        for stage in ('first', 'second'):
            c = it[stage]
            if stage == 'second':
                try:
                    idata.indices = idx(c)
                except Exception as e:
                    out.append(Divergence({'spec': 'Views/IndexedData', 'item': it}, 1, 'indexed_set_indices', 'accepted',
                                          'raised %s: %s' % (type(e).__name__, e)).to_json())
                    break
            bad = None
            for k, cid in z.attributes().items():
                if k == 'linked':
                    continue
                want = expected(z.full['a:' + k], c['exp'])
                n_eval += 1
                try:
                    got = idata.get_data(cid)
                except Exception as e:
                    bad = ('indexed_values[%s]' % k, want.tolist(), 'raised %s: %s' % (type(e).__name__, str(e)[:200]))
                    break
                if k.startswith('pixel') or k.startswith('world'):
                    continue          # coordinate attributes of the reduced dataset are its own
                if not zoo.same(got, want):
                    bad = ('indexed_values[%s]' % k, want.tolist(), np.asarray(got).tolist())
                    break
                # statistics of the reduced dataset equal those of the slice (sum/min/max over finite values)
                if k in ('stored_float', 'stored_int', 'derived'):
                    vals = [float(v) for v in np.asarray(want, dtype=float).reshape(-1) if np.isfinite(v)]
                    for stat, fn in (('sum', sum), ('minimum', min), ('maximum', max)):
                        w = fn(vals) if vals else float('nan')
                        try:
                            g = float(idata.compute_statistic(stat, cid))
                        except Exception as e:
                            bad = ('indexed_stat[%s,%s]' % (k, stat), w, 'raised %s: %s' % (type(e).__name__, str(e)[:200]))
                            break
                        if not (g == w or (g != g and w != w)):
                            bad = ('indexed_stat[%s,%s]' % (k, stat), w, g)
                            break
                    if bad:
                        break
                    if vals:
                        lo, hi = min(vals) - 0.25, max(vals) + 0.25
                        try:
                            h = idata.compute_histogram([cid], range=[(lo, hi)], bins=[1])
                            if float(np.sum(h)) != float(len(vals)):
                                bad = ('indexed_hist[%s]' % k, len(vals), float(np.sum(h)))
                        except Exception as e:
                            bad = ('indexed_hist[%s]' % k, len(vals), 'raised %s: %s' % (type(e).__name__, str(e)[:200]))
                        if bad:
                            break
            if bad is None:
                for k, f in z.fact.items():
                    want = expected(z.full['s:' + k], c['exp'])
                    n_eval += 1
                    try:
                        got = idata.get_mask(f())
                    except Exception as e:
                        bad = ('indexed_mask[%s]' % k, want.tolist(), 'raised %s: %s' % (type(e).__name__, str(e)[:200]))
                        break
                    if not zoo.same(got, want):
                        bad = ('indexed_mask[%s]' % k, want.tolist(), np.asarray(got).tolist())
                        break
            if bad is not None:
                out.append(Divergence({'spec': 'Views/IndexedData', 'item': it}, 0 if stage == 'first' else 1,
                                      bad[0], bad[1], bad[2], kind=bad[0], note='indices %s' % (idx(c),)).to_json())
                break
    return {'div': out, 'steps': n_eval, 'n': len(items)}
