"""C01 - Boolean algebra of selections. SubsetAlgebra.tla: TLC computes the truth table of every tree built by a
history of combine / invert / many-way or / copy / evaluate / edit-mode actions; each history runs on real SubsetState
objects whose leaves range over every elementary selection kind of the zoo, on 1-, 2- and 3-d datasets (E1)."""
from harness import tlc, core
from harness.tlaval import to_json
from harness.adapters import subsetalgebra as A


def _tt(t):
    return sorted(sorted(p) for p in t)


def _st(s):
    return {'tts': [_tt(t) for t in s['tts']], 'ett': _tt(s['ett'])}


def _base(state_lists):
    return [[{'act': to_json(s['act']), 'st': _st(s)} for s in sl[1:]] for sl in state_lists]


def _expand(base, kinds_by_shape, seed, per):
    items = []
    k = seed
    for steps in base:
        for _ in range(per):
            shape = A.SHAPES[k % len(A.SHAPES)]
            kinds = kinds_by_shape[shape]
            n = len(kinds)
            items.append({'shape': list(shape), 'steps': steps,
                          'kinds': {'s1': kinds[k % n], 's2': kinds[(k * 7 + 3) % n], 's3': kinds[(k * 13 + 5) % n]}})
            k += 1
    return items


def run(ctx):
    quick = ctx.tier == 'quick'
    core.use_repo()
    import warnings
    warnings.simplefilter('ignore')
    kinds_by_shape = {s: A.get_zoo(s).kinds for s in A.SHAPES}
    with tlc.Workdir() as wd:
        gcfg = 'GEN_SubsetAlgebra_quick.cfg' if quick else 'GEN_SubsetAlgebra_thorough.cfg'
        res, g = tlc.dump_graph(wd, 'MC_SubsetAlgebra.tla', gcfg, timeout=3000)
        if not res.ok:
            raise core.MachineryFailure('SubsetAlgebra.tla fails its own checks')
        ctx.add_tlc('E0+E1 generation ' + gcfg, res, gcfg)
        base = _base([[g.state(n) for n in p] for p in g.behaviours()])
        del g
        items = _expand(base, kinds_by_shape, ctx.seed, 1 if quick else 4)
        ctx.check_ops(gcfg, items, ['Combine', 'Invert', 'ManyOr', 'Copy', 'Evaluate', 'EditMode'])
        ecfg = 'GEN_SubsetAlgebra_edit.cfg'
        res, g = tlc.dump_graph(wd, 'MC_SubsetAlgebra.tla', ecfg, timeout=3000)
        ctx.add_tlc('E1 generation ' + ecfg, res, ecfg)
        ebase = _base([[g.state(n) for n in p] for p in g.behaviours()])
        del g
        items += _expand(ebase, kinds_by_shape, ctx.seed + 5, 1 if quick else 3)
        n, depth = (300, 9) if quick else (5000, 12)
        res, behs = tlc.simulate(wd, 'MC_SubsetAlgebra.tla', 'SIM_SubsetAlgebra.cfg', num=n, depth=depth, seed=ctx.seed + 1,
                                 timeout=3000)
        ctx.cov['tlc_runs'].append({'label': 'E1 simulation SIM_SubsetAlgebra.cfg', 'behaviours': len(behs), 'depth': depth})
        items += _expand(_base(behs), kinds_by_shape, ctx.seed + 17, 2 if quick else 6)
    used = set()
    for it in items:
        used.update(it['kinds'].values())
    allk = set(k for ks in kinds_by_shape.values() for k in ks)
    ctx.cov['elementary_kinds_used'] = sorted(used)
    ctx.cov['elementary_kinds_never_used'] = sorted(allk - used)
    res = core.sharded('harness.adapters.subsetalgebra', 'replay_chunk', items)
    nontriv = len(set((tuple(it['shape']), tuple(sorted(it['kinds'].items())),
                       tuple((s['act']['op'], s['act']['i'], s['act']['j'], s['act']['k'], s['act']['m'], s['act']['l']) for s in it['steps']))
                      for it in items if len(it['steps']) >= 2))
    ctx.add_replayed(len(items), sum(r['steps'] for r in res), nontriv)
    for r in res:
        for d in r['div']:
            ctx.report(core.Divergence.from_json(d))
    ctx.sample({'kinds': items[len(items) // 2]['kinds'], 'shape': items[len(items) // 2]['shape'],
                'acts': [s['act'] for s in items[len(items) // 2]['steps']]})
    ctx.cov['exhaustive'] = True
    ctx.cov['rule'] = ('every history of <= 2 actions (graph) and random histories to depth 9-12, each with leaves drawn from all '
                       'elementary selection kinds on 1-/2-/3-d datasets; non-trivial = distinct (shape, kinds, history) with >= 2 actions')
    ctx.assume('the mask of an elementary selection evaluated alone on fresh state objects is the meaning of that part')
    ctx.assume('elementary kinds are those zoo.py can build; a kind without a factory is a coverage gap, listed in the evidence')


def replay(div):
    from harness.core import use_repo
    use_repo()
    r = A.replay_one(div.behaviour)
    if r is None:
        print('replay: behaviour conforms')
        return 0
    print('VIOLATION property=C01 replay=(given)')
    print('  step %s %s: expected %s got %s' % (r[0], r[1], r[2], r[3]))
    return 1
