"""C02 - session save/restore. Session.tla: TLC enumerates compositions of sessions (every selection kind alone and nested,
link helper kinds, a key join) followed by one or two SaveLoad steps, and checks SaveLoad is the identity on the abstract
state; each composition is built with real objects, serialised with GlueSerializer and restored with GlueUnSerializer, and the
observable projection compared before/after (E1). A loud failure at save time is allowed and counted."""
import json

from harness import tlc, core
from harness.tlaval import to_json
from harness.adapters import session as A


def _tla_set(xs):
    return '{' + ', '.join('"%s"' % x for x in xs) + '}'


def run(ctx):
    quick = ctx.tier == 'quick'
    k = A.kinds()
    ctx.cov['selection_kinds'] = k['sel']
    ctx.cov['link_kinds'] = k['links']
    ctx.cov['state_classes_without_factory'] = k['state_classes_without_factory']
    with tlc.Workdir() as wd:
        wd.write('Session_Gen.tla', '---- MODULE Session_Gen ----\ng_SelKinds == %s\ng_LinkKinds == %s\n====\n' % (_tla_set(k['sel']), _tla_set(k['links'])))
        items, seen = [], set()
        for gcfg in (['GEN_Session_quick.cfg'] if quick else ['GEN_Session_thorough.cfg', 'GEN_Session_pairs.cfg', 'GEN_Session_two.cfg']):
            res, g = tlc.dump_graph(wd, 'MC_Session.tla', gcfg, timeout=6000)
            ctx.add_tlc('E0+E1 generation ' + gcfg, res, gcfg)
            for p in g.behaviours():
                sts = [g.state(n) for n in p]
                acts = [to_json(s['act']) for s in sts[1:]]
                # keep the path up to its last SaveLoad (what follows a restore is only observable through another one)
                while acts and acts[-1]['op'] != 'SaveLoad':
                    acts.pop()
                key = (str(sts[0]['shape']), json.dumps(acts, sort_keys=True))
                if not acts or key in seen:
                    continue
                seen.add(key)
                items.append({'shape': str(sts[0]['shape']), 'steps': [{'act': a} for a in acts]})
            del g
    # 1-d only kinds get their own single-kind sessions
    for kind in k['sel_1d_only']:
        for tree in ({'op': 'leaf', 'a': kind, 'b': '-'}, {'op': 'not', 'a': kind, 'b': '-'}):
            items.append({'shape': 's1', 'steps': [{'act': {'op': 'NewGroup', 't': tree, 's': '-'}}, {'act': {'op': 'SaveLoad', 't': {}, 's': '-'}},
                                                  {'act': {'op': 'SaveLoad', 't': {}, 's': '-'}}]})
    ctx.check_ops(gcfg, items, ['NewGroup', 'AddLink', 'AddJoin', 'SaveLoad'])
    res = core.sharded('harness.adapters.session', 'replay_chunk', items)
    loud = {}
    for r in res:
        for l in r['loud']:
            loud[l] = loud.get(l, 0) + 1
        for d in r['div']:
            ctx.report(core.Divergence.from_json(d))
    ctx.cov['loud_failures_at_save'] = loud
    if sum(loud.values()) > len(items) // 3:
        raise core.MachineryFailure('vacuous: %d of %d sessions failed at save time: %s' % (sum(loud.values()), len(items), loud))
    ctx.add_replayed(len(items), sum(r['steps'] for r in res), sum(1 for it in items if sum(1 for s in it['steps'] if s['act']['op'] != 'SaveLoad') >= 1))
    ctx.sample(items[len(items) // 2])
    ctx.cov['exhaustive'] = True
    ctx.cov['rule'] = ('every composition in the bound ending with a SaveLoad; projection = labels, component order, values, world values, '
                       'attributes readable through links (values or incompatible), mask of every group on every dataset, styles, metadata; '
                       'non-trivial = sessions with at least one group, link or join')
    ctx.assume('include_data=True (saving by reference to files is exercised by C19); selection kinds are the zoo factories, classes without '
               'a factory are listed as gaps; a failure at save time is allowed, a failure at load time is not')


def replay(div):
    from harness.core import use_repo
    use_repo()
    r = A.replay_one(div.behaviour)
    if r is None or r[0] == 'loud':
        print('replay: behaviour conforms' + (' (loud failure at save: %s)' % r[2] if r else ''))
        return 0
    print('VIOLATION property=C02 replay=(given)')
    print('  step %s %s: expected %s got %s' % (r[1], r[2], r[3], r[4]))
    return 1
