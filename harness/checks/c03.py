"""C03 - linked attributes. Links.tla (R) computes reachability, shortest-chain depth and admissible last links;
TLC model-checks the requirement's own properties (E0) and enumerates histories that are replayed into a real
DataCollection/LinkManager (E1)."""
from harness import tlc, core
from harness.tlaval import to_json
from harness.adapters import links as A

INITIAL = ['d1.a', 'd1.b', 'd2.a', 'd2.b', 'd3.a']


def _exp(e):
    return {str(d): {str(c): {'depth': r['depth'], 'choices': sorted([str(x[0]), str(x[1])] for x in r['choices'])}
                     for c, r in row.items()} for d, row in e.items()}


def _st(s):
    return {'coll': sorted(s['coll']), 'comps': sorted(s['comps']), 'links': sorted(l['id'] for l in s['links']),
            'delay': s['delay'], 'exp': _exp(s['exp'])}


def _act(a):
    return {'op': a['op'], 'd': a['d'], 'c': a['c'], 'l': a['l'], 's': sorted(a['s'])}


def _items(state_lists):
    return [{'initial': sorted(sl[0]['comps']), 'initial_coll': sorted(sl[0]['coll']),
             'steps': [{'act': _act(s['act']), 'st': _st(s)} for s in sl[1:]]} for sl in state_lists]


def _replay(ctx, items, label):
    res = core.sharded('harness.adapters.links', 'replay_chunk', items)
    steps = sum(r['steps'] for r in res)
    nontriv = len(set(tuple((s['act']['op'], s['act']['d'], s['act']['c'], s['act']['l'], tuple(s['act']['s'])) for s in it['steps'])
                      for it in items if any(0 < r['depth'] < 99 for s in it['steps'][-1:] for row in s['st']['exp'].values()
                                             for r in row.values())))
    ctx.add_replayed(len(items), steps, nontriv)
    for r in res:
        for d in r['div']:
            ctx.report(core.Divergence.from_json(d))
    if items:
        ctx.sample({'source': label, 'acts': [{k: v for k, v in s['act'].items() if v not in ('-', [])}
                                              for s in items[len(items) // 2]['steps']]})


def run(ctx):
    quick = ctx.tier == 'quick'
    with tlc.Workdir() as wd:
        cfg = 'MC_Links_quick.cfg' if quick else 'MC_Links_thorough.cfg'
        res = tlc.run_tlc(wd, 'MC_Links.tla', cfg, timeout=3000)
        if not res.ok:
            raise core.MachineryFailure('Links.tla fails its own checks: %s\n%s' % (res.violated_invariant, res.out[-1500:]))
        ctx.add_tlc('E0 ' + cfg, res, cfg)
        gcfg = 'GEN_Links_quick.cfg' if quick else 'GEN_Links_thorough.cfg'
        res, g = tlc.dump_graph(wd, 'MC_Links.tla', gcfg, timeout=3000)
        ctx.add_tlc('E1 generation ' + gcfg, res, gcfg)
        items = _items([[g.state(n) for n in p] for p in g.behaviours()])
        del g
        ctx.check_ops(gcfg, items, ['AppendData', 'RemoveData', 'AddComponent', 'RemoveComponent', 'AddLink',
                                    'RemoveLink', 'SetLinks', 'DelayEnter', 'DelayExit'])
        _replay(ctx, items, 'graph ' + gcfg)
        ctx.cov['exhaustive'] = True
        # link-graph shapes: everything present from the start, full menu
        g2 = 'GEN_Links_graphs_quick.cfg' if quick else 'GEN_Links_graphs.cfg'
        res, g = tlc.dump_graph(wd, 'MC_Links.tla', g2, timeout=3000)
        ctx.add_tlc('E1 generation ' + g2, res, g2)
        items = _items([[g.state(n) for n in p] for p in g.behaviours()])
        del g
        ctx.check_ops(g2, items, ['AddLink', 'RemoveLink', 'SetLinks', 'RemoveComponent', 'RemoveData'])
        _replay(ctx, items, 'graph ' + g2)
        n, depth = (300, 25) if quick else (6000, 40)
        res, behs = tlc.simulate(wd, 'MC_Links.tla', 'SIM_Links.cfg', num=n, depth=depth, seed=ctx.seed + 1, timeout=3000)
        ctx.cov['tlc_runs'].append({'label': 'E1 simulation SIM_Links.cfg', 'behaviours': len(behs), 'depth': depth})
        _replay(ctx, _items(behs), 'simulate SIM_Links.cfg')
    ctx.cov['rule'] = ('every transition of the depth-bounded history graph replayed + random walks over the full menu; '
                       'non-trivial = distinct histories ending in a state where some dataset reaches a foreign component')
    ctx.assume('link functions are affine with exactly representable inverses; values compared with == against the set of '
               'values obtained by composing the functions along the admissible shortest chains computed by TLC')
    ctx.assume('installed components are compared when no delay_link_manager_update block is open; links are added only '
               'between datasets of the collection')


def replay(div):
    res = A.replay_one(div.behaviour)
    if res is None:
        print('replay: behaviour conforms')
        return 0
    print('VIOLATION property=C03 replay=(given)')
    print('  step %s %s: expected %s got %s %s' % res)
    return 1
