"""C04 - views. Views.tla defines the index map of every supported view from first principles; TLC enumerates every
(shape, view) configuration and exports result shape + source index of every result position; every attribute kind
and every elementary selection kind is requested under that view on a real dataset and compared (E1)."""
from harness import tlc, core
from harness.tlaval import parse_state, to_json
from harness.adapters import views as A


def _cfg(s):
    c = s['cfg']
    return {'shape': list(c['shape']), 'kind': c['kind'],
            'items': [{'t': i['t'], 'b': i['b'], 'e': i['e'], 's': i['s']} for i in c['items']],
            'pts': [list(p) for p in c['pts']], 'mask': sorted(c['mask'])}


def _exp(s):
    return {'rshape': list(s['exp']['rshape']), 'src': list(s['exp']['src'])}


def run(ctx):
    quick = ctx.tier == 'quick'
    cfg = 'MC_Views_quick.cfg' if quick else 'MC_Views_thorough.cfg'
    with tlc.Workdir() as wd:
        res, chunks = tlc.dump_states(wd, 'MC_Views.tla', cfg, timeout=3000)
        ctx.add_tlc('E0+generation ' + cfg, res, cfg)
    states = [parse_state(c) for c in chunks]
    states = [s for s in states if s['picked']]
    items = []
    for k, s in enumerate(states):
        items.append({'cfg': _cfg(s), 'exp': _exp(s), 'variant': (k + ctx.seed) % 2})
    kinds = {}
    for it in items:
        kinds[it['cfg']['kind']] = kinds.get(it['cfg']['kind'], 0) + 1
    for k in ('none', 'ellipsis', 'tuple', 'arrays', 'mask'):
        if not kinds.get(k):
            raise core.MachineryFailure('vacuous enumeration: no view of kind %s' % k)
    ctx.cov['view_kinds'] = kinds
    res = core.sharded('harness.adapters.views', 'replay_chunk', items)
    evals = sum(r['steps'] for r in res)
    nontriv = sum(1 for it in items if 0 < len(it['exp']['src']) and it['cfg']['kind'] not in ('none', 'ellipsis'))
    ctx.add_replayed(len(items), evals, nontriv)
    for r in res:
        for d in r['div']:
            ctx.report(core.Divergence.from_json(d))
    ctx.sample({'cfg': items[len(items) // 3]['cfg'], 'exp': items[len(items) // 3]['exp']})
    # IndexedData: tuple configurations made of integers and full slices are index tuples
    def is_index(it):
        c = it['cfg']
        if c['kind'] != 'tuple' or len(c['items']) != len(c['shape']) or len(c['shape']) < 2:
            return False
        ints = 0
        for k, x in enumerate(c['items']):
            if x['t'] == 'int':
                ints += 1
            elif not (x['b'] == 0 and x['e'] == c['shape'][k] and x['s'] == 1):
                return False
        return 0 < ints < len(c['shape'])
    idx = [it for it in items if is_index(it)]
    by_shape = {}
    for it in idx:
        by_shape.setdefault((tuple(it['cfg']['shape']), tuple(x['t'] for x in it['cfg']['items'])), []).append(it)
    pairs = []
    for key, lst in by_shape.items():
        for a in range(len(lst)):
            b = (a * 7 + 3 + ctx.seed) % len(lst)
            pairs.append({'first': lst[a], 'second': lst[b]})
    if not pairs:
        raise core.MachineryFailure('no IndexedData configurations')
    res = core.sharded('harness.adapters.views', 'indexed_chunk', pairs)
    ctx.add_replayed(len(pairs), sum(r['steps'] for r in res), len(pairs))
    ctx.cov['indexed_pairs'] = len(pairs)
    for r in res:
        for d in r['div']:
            ctx.report(core.Divergence.from_json(d))
    ctx.cov['exhaustive'] = True
    ctx.cov['rule'] = ('every (shape, view) configuration of the model is applied to every attribute kind and every elementary '
                       'selection kind; non-trivial = configurations with a non-empty result that are not the whole array; '
                       'IndexedData: every index tuple of ints/full slices, then a change of indices')
    ctx.cov['attribute_kinds'] = ['stored_float(NaN,inf)', 'stored_int', 'categorical', 'derived', 'pixel', 'world(affine)', 'linked']
    ctx.assume('the full-size result requested without a view on fresh objects is the reference; negative steps and np.newaxis are outside the supported domain')
    ctx.assume('categorical 2-attribute selections only on 1-d datasets (they raise TypeError on n-d categorical data)')


def replay(div):
    from harness.core import use_repo
    use_repo()
    b = div.behaviour
    if b['spec'] == 'Views':
        res = A.check_config(b['cfg'], b['exp'], b.get('variant', 0))
        if not res:
            print('replay: configuration conforms')
            return 0
        print('VIOLATION property=C04 replay=(given)')
        for r in res[:5]:
            print('  %s: expected %s got %s' % (r[0], r[1], r[2]))
        return 1
    r = A.indexed_chunk([b['item']], None)
    if not r['div']:
        print('replay: configuration conforms')
        return 0
    print('VIOLATION property=C04 replay=(given)')
    print('  %s' % r['div'][0]['component'])
    return 1
