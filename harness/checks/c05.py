"""C05 - no stale cache. Memo.tla: TLC enumerates the interleavings of evaluations (mask, mask under a view, subset,
statistic, histogram, linked value) and mutations (replace values, refresh with same/new shape, move/edit/set the
parameters of a leaf - also inside composites -, add/remove link); each runs on long-lived real objects and every
evaluation is compared with freshly built objects at the same abstract versions (E1)."""
from harness import tlc, core
from harness.tlaval import to_json
from harness.adapters import memo as A


def _st(s):
    return {'dver': s['dver'], 'shape': s['shape'], 'pver': {str(k): v for k, v in s['pver'].items()}, 'linked': s['linked'],
            'vs': {'log': s['vs']['log'], 'nbin': s['vs']['nbin']}}


def _base(state_lists):
    out = []
    for sl in state_lists:
        steps = [{'act': to_json(s['act']), 'st': _st(s)} for s in sl[1:]]
        if steps and steps[0]['act']['op'] == 'Setup' and steps[-1]['act']['op'] == 'Evaluate':
            out.append(steps)
    return out


def _expand(base, seed, per):
    items = []
    k = seed
    K = A.LEAF_KINDS
    for steps in base:
        for _ in range(per):
            it = {'kinds': {'A': K[k % len(K)], 'B': K[(k * 5 + 2) % len(K)]}, 'steps': steps}
            k += 1
            if A.applicable(it):
                items.append(it)
    return items


def run(ctx):
    quick = ctx.tier == 'quick'
    with tlc.Workdir() as wd:
        gcfg = 'GEN_Memo_quick.cfg'
        res, g = tlc.dump_graph(wd, 'MC_Memo.tla', gcfg, timeout=3000)
        ctx.add_tlc('E0+E1 generation ' + gcfg, res, gcfg)
        base = _base(([g.state(n) for n in p] for p in g.behaviours()))
        del g
        items = _expand(base, ctx.seed, 1 if quick else 2)
        if quick:
            # a third of the histories per run, chosen by the seed (the thorough tier replays all of them, 2 kind assignments each)
            items = [it for k, it in enumerate(items) if (k + ctx.seed) % 3 == 0]
        else:
            # deeper histories (up to 4 evaluations and 4 mutations) as random walks: the state graph of that bound cannot be exported
            res, behs = tlc.simulate(wd, 'MC_Memo.tla', 'SIM_Memo.cfg', num=30000, depth=10, seed=ctx.seed + 11, timeout=3000)
            ctx.cov['tlc_runs'].append({'label': 'E1 simulation SIM_Memo.cfg', 'behaviours': len(behs), 'depth': 10})
            def cut(sl):
                k = max([i for i, st in enumerate(sl) if str(st['act']['op']) == 'Evaluate'] or [0])
                return sl[:k + 1]
            deep = _expand(_base(cut(sl) for sl in behs), ctx.seed + 7, 1)
            seen_keys = set()
            for it in deep:
                key = (tuple(sorted(it['kinds'].items())), tuple((s['act']['op'], s['act']['a'], s['act']['b']) for s in it['steps']))
                if key not in seen_keys:
                    seen_keys.add(key)
                    items.append(it)
    ctx.check_ops(gcfg, items, ['Setup', 'Evaluate', 'UpdateComponents', 'UpdateFromData', 'MutateLeaf', 'SetLink', 'SetViewer'])
    used = set()
    for it in items:
        used.update(it['kinds'].values())
    ctx.cov['leaf_kinds_used'] = sorted(used)
    res = core.sharded('harness.adapters.memo', 'replay_chunk', items)
    def key(it):
        return (tuple(sorted(it['kinds'].items())), tuple((s['act']['op'], s['act']['a'], s['act']['b']) for s in it['steps']))
    def interesting(it):
        ops = [s['act']['op'] for s in it['steps']]
        if 'Evaluate' not in ops:
            return False
        first = ops.index('Evaluate')
        later_mut = any(o not in ('Evaluate', 'Setup') for o in ops[first + 1:])
        return later_mut and ops[-1] == 'Evaluate'
    ctx.add_replayed(len(items), sum(r['steps'] for r in res), len(set(key(it) for it in items if interesting(it))))
    for r in res:
        for d in r['div']:
            ctx.report(core.Divergence.from_json(d))
    ctx.sample({'kinds': items[len(items) // 2]['kinds'], 'acts': [s['act'] for s in items[len(items) // 2]['steps']]})
    ctx.cov['exhaustive'] = not quick      # of the <= 2 evaluations / <= 2 mutations graph; the deeper graph is sampled
    ctx.cov['rule'] = ('every interleaving of evaluations and mutations in the bound x leaf kinds assigned round-robin; non-trivial = '
                       'distinct histories with an evaluation, a later mutation and a final evaluation')
    ctx.assume('the oracle is a freshly built, never evaluated copy of the same abstract state (new Data, new selection objects)')
    ctx.assume('memo caches are emptied between behaviours (they hold strong references for ever); selections tied to the dataset shape are not paired with a shape change')


def replay(div):
    from harness.core import use_repo
    use_repo()
    r = A.replay_one(div.behaviour)
    if r is None:
        print('replay: behaviour conforms')
        return 0
    print('VIOLATION property=C05 replay=(given)')
    print('  step %s %s: expected %s got %s (%s)' % (r[0], r[1], r[2], r[3], r[4]))
    return 1
