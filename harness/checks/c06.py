"""C06 - one subset per group per dataset. Collection.tla (R) model-checked (E0); all histories to a depth
and random deep walks replayed into a real DataCollection (E1)."""
from harness import tlc, core
from harness.tlaval import to_json
from harness.adapters import collection as A

VARS = ('coll', 'groups', 'gstate', 'glabel', 'gcolor', 'delay')


def _st(s):
    return {k: to_json(s[k]) for k in VARS}


def items_from_graph(g, paths):
    return [{'steps': [{'act': to_json(g.state(n)['act']), 'st': _st(g.state(n))} for n in p[1:]]} for p in paths]


def items_from_sim(behs):
    return [{'steps': [{'act': to_json(s['act']), 'st': _st(s)} for s in states[1:]]} for states in behs]


def replay_items(ctx, items, label, modname='harness.adapters.collection'):
    res = core.sharded(modname, 'replay_chunk', items)
    steps = sum(r['steps'] for r in res)
    nontriv = len(set(tuple((s['act']['op'], s['act']['d'], s['act']['g']) for s in it['steps']) for it in items
                      if len(it['steps']) >= 3 and it['steps'][-1]['st']['groups'] and it['steps'][-1]['st']['coll']))
    ctx.add_replayed(len(items), steps, nontriv)
    for r in res:
        for d in r['div']:
            ctx.report(core.Divergence.from_json(d))
    if items:
        ctx.sample({'source': label, 'acts': [_fmt(s['act']) for s in items[len(items) // 2]['steps']]})


def _fmt(a):
    return {k: v for k, v in a.items() if v not in ('-', 0, [], False)}


def run(ctx):
    quick = ctx.tier == 'quick'
    with tlc.Workdir() as wd:
        cfg = 'MC_Collection_quick.cfg' if quick else 'MC_Collection_thorough.cfg'
        res = tlc.run_tlc(wd, 'MC_Collection.tla', cfg, timeout=3000)
        if not res.ok:
            raise core.MachineryFailure('Collection.tla fails its own checks: %s\n%s' % (res.violated_invariant, res.out[-1500:]))
        ctx.add_tlc('E0 ' + cfg, res, cfg)
        gcfg = 'GEN_Collection_quick.cfg' if quick else 'GEN_Collection_thorough.cfg'
        res, g = tlc.dump_graph(wd, 'MC_Collection.tla', gcfg, timeout=3000, coverage=True)
        ctx.add_tlc('E1 generation ' + gcfg, res, gcfg)
        ctx.check_vacuity(gcfg, res, ['Append_', 'Remove_', 'NewGroup', 'RemoveGroup', 'SetState', 'SetLabel',
                                      'SetColor', 'Merge', 'Clear', 'SaveRestore', 'DelayEnter', 'DelayExit'])
        replay_items(ctx, items_from_graph(g, g.behaviours()), 'graph ' + gcfg)
        ctx.cov['exhaustive'] = True
        del g
        n, depth = (400, 25) if quick else (8000, 40)
        res, behs = tlc.simulate(wd, 'MC_Collection.tla', 'SIM_Collection.cfg', num=n, depth=depth,
                                 seed=ctx.seed + 1, timeout=3000)
        ctx.cov['tlc_runs'].append({'label': 'E1 simulation SIM_Collection.cfg', 'behaviours': len(behs), 'depth': depth})
        replay_items(ctx, items_from_sim(behs), 'simulate SIM_Collection.cfg')
    ctx.cov['rule'] = ('every transition of the depth-bounded generation graph replayed (BFS-tree leaves + non-tree edges) plus '
                       'random walks; non-trivial = distinct histories of >= 3 steps ending with at least one dataset and one group')
    ctx.assume('membership compared only when no hub delay block is open; nothing is required of datasets outside the collection')
    ctx.assume('selections are row-index selections (ElementSubsetState) so that one group state has a mask on every dataset')


def replay(div):
    res = A.replay_one(div.behaviour)
    if res is None:
        print('replay: behaviour conforms')
        return 0
    print('VIOLATION property=C06 replay=(given)')
    print('  step %s %s: expected %s got %s %s' % res)
    return 1
