"""C06 - one subset per group per dataset. Collection.tla (R) model-checked (E0); all histories to a depth
and random deep walks replayed into a real DataCollection (E1)."""
from harness import tlc, core, hubtrace, colltrace
from harness.tlaval import to_json
from harness.adapters import collection as A

VARS = ('coll', 'groups', 'gstate', 'glabel', 'gcolor', 'delay')


def _st(s):
    return {k: to_json(s[k]) for k in VARS}


def items_from_graph(g, paths):
    return [{'steps': [{'act': to_json(g.state(n)['act']), 'st': _st(g.state(n))} for n in p[1:]]} for p in paths]


def items_from_sim(behs):
    return [{'steps': [{'act': to_json(s['act']), 'st': _st(s)} for s in states[1:]]} for states in behs]


def replay_items(ctx, items, label, modname='harness.adapters.collection'):
    res = core.sharded(modname, 'replay_chunk', items)
    steps = sum(r['steps'] for r in res)
    nontriv = len(set(tuple((s['act']['op'], s['act']['d'], s['act']['g']) for s in it['steps']) for it in items
                      if len(it['steps']) >= 3 and it['steps'][-1]['st']['groups'] and it['steps'][-1]['st']['coll']))
    ctx.add_replayed(len(items), steps, nontriv)
    for r in res:
        for d in r['div']:
            ctx.report(core.Divergence.from_json(d))
    if items:
        ctx.sample({'source': label, 'acts': [_fmt(s['act']) for s in items[len(items) // 2]['steps']]})


def _fmt(a):
    return {k: v for k, v in a.items() if v not in ('-', 0, [], False)}


def run(ctx):
    quick = ctx.tier == 'quick'
    with tlc.Workdir() as wd:
        cfg = 'MC_Collection_quick.cfg' if quick else 'MC_Collection_thorough.cfg'
        res = tlc.run_tlc(wd, 'MC_Collection.tla', cfg, timeout=3000)
        if not res.ok:
            raise core.MachineryFailure('Collection.tla fails its own checks: %s\n%s' % (res.violated_invariant, res.out[-1500:]))
        ctx.add_tlc('E0 ' + cfg, res, cfg)
        gcfg = 'GEN_Collection_quick.cfg' if quick else 'GEN_Collection_thorough.cfg'
        res, g = tlc.dump_graph(wd, 'MC_Collection.tla', gcfg, timeout=3000, coverage=True)
        ctx.add_tlc('E1 generation ' + gcfg, res, gcfg)
        ctx.check_vacuity(gcfg, res, ['Append_', 'Remove_', 'NewGroup', 'RemoveGroup', 'SetState', 'SetLabel',
                                      'SetColor', 'Merge', 'Clear', 'SaveRestore', 'DelayEnter', 'DelayExit'])
        replay_items(ctx, items_from_graph(g, g.behaviours()), 'graph ' + gcfg)
        ctx.cov['exhaustive'] = True
        del g
        n, depth = (400, 25) if quick else (8000, 40)
        res, behs = tlc.simulate(wd, 'MC_Collection.tla', 'SIM_Collection.cfg', num=n, depth=depth,
                                 seed=ctx.seed + 1, timeout=3000)
        ctx.cov['tlc_runs'].append({'label': 'E1 simulation SIM_Collection.cfg', 'behaviours': len(behs), 'depth': depth})
        replay_items(ctx, items_from_sim(behs), 'simulate SIM_Collection.cfg')
        _undo(ctx, wd)
        _impl(ctx, wd, quick)
        _e2(ctx, wd, quick)
    ctx.cov['rule'] = ('every transition of the depth-bounded generation graph replayed (BFS-tree leaves + non-tree edges) plus '
                       'random walks; non-trivial = distinct histories of >= 3 steps ending with at least one dataset and one group')
    ctx.assume('membership compared only when no hub delay block is open; nothing is required of datasets outside the collection')
    ctx.assume('selections are row-index selections (ElementSubsetState) so that one group state has a mask on every dataset')


def _undo(ctx, wd):
    """"... undoing and redoing": the do/undo/redo words of Commands.tla that cross a dataset removal (every word of <= 7 commands
    over add/remove data and selections) on a real session; the projection includes, per group and dataset, that the dataset
    carries exactly one subset of the group - divergences on it are C06 violations (the whole of Commands.tla belongs to C13)."""
    from harness.checks import c13
    ucfg = 'GEN_Commands_undo2.cfg'
    res, g = tlc.dump_graph(wd, 'MC_Commands.tla', ucfg, timeout=3000)
    ctx.add_tlc('E1 generation ' + ucfg + ' (Commands.tla, membership under undo/redo)', res, ucfg)
    items = c13._items([[g.state(n) for n in p] for p in g.behaviours()], 3)
    del g
    ctx.check_ops(ucfg, items, ['Do', 'Undo', 'Redo'])
    res = core.sharded('harness.adapters.commands', 'replay_chunk', items)
    ctx.add_replayed(len(items), sum(r['steps'] for r in res), sum(1 for it in items if sum(1 for s in it['steps'] if s['act']['op'] == 'Undo') >= 2))
    for r in res:
        for d in r['div']:
            ctx.report(core.Divergence.from_json(d))


def _impl(ctx, wd, quick):
    """CollectionImpl.tla: the message-driven bookkeeping of the code. The repaired design satisfies the membership invariant, the
    two designs of the pinned commit are refuted (otherwise the I-spec would be too weak to see those defects), and the I-spec's
    behaviours are replayed into the real objects comparing Data.subsets / SubsetGroup.subsets after every step."""
    suffix = '' if quick else '_thorough'
    res = tlc.run_tlc(wd, 'MC_CollectionImpl.tla', 'MC_CollectionImpl_fixed%s.cfg' % suffix, timeout=3000)
    if not res.ok:
        raise core.MachineryFailure('CollectionImpl.tla (repaired design) violates %s:\n%s' % (res.violated_invariant, res.out[-1500:]))
    ctx.add_tlc('E0 MC_CollectionImpl_fixed%s.cfg' % suffix, res, 'MC_CollectionImpl_fixed%s.cfg' % suffix)
    for v in ('noadd', 'norem'):
        r = tlc.run_tlc(wd, 'MC_CollectionImpl.tla', 'MC_CollectionImpl_%s.cfg' % v, timeout=600)
        if r.violated_invariant != 'Inv_Membership':
            raise core.MachineryFailure('CollectionImpl.tla does not refute the %s design (the I-spec is too weak)' % v)
        ctx.cov['tlc_runs'].append({'label': 'E0 MC_CollectionImpl_%s.cfg (design of the pinned commit)' % v, 'refuted': 'Inv_Membership',
                                    'counterexample': [str(s.get('act')) for _, s in r.error_trace()][-6:]})
    gcfg = 'GEN_CollectionImpl%s.cfg' % suffix
    res, g = tlc.dump_graph(wd, 'MC_CollectionImpl.tla', gcfg, timeout=3000)
    ctx.add_tlc('E1 generation ' + gcfg, res, gcfg)
    items = []
    for p in g.behaviours():
        steps = []
        for n in p[1:]:
            s = g.state(n)
            steps.append({'act': to_json(s['act']), 'st': {'coll': [str(x) for x in s['coll']], 'groups': sorted(int(x) for x in s['groups']),
                                                             'dsub': {str(k): [int(x) for x in v] for k, v in s['dsub'].items()},
                                                             'gsub': {str(k): [str(x) for x in v] for k, v in (s['gsub'].items() if hasattr(s['gsub'], 'items') else enumerate(s['gsub'], 1))},
                                                             'queue': len(s['queue']), 'delay': int(s['delay'])}})
        items.append({'steps': steps})
    del g
    ctx.check_ops(gcfg, items, ['Append', 'Remove', 'NewGroup', 'RemoveGroup', 'DelayEnter', 'DelayExit'])
    replay_items_impl(ctx, items, 'graph ' + gcfg)


def replay_items_impl(ctx, items, label):
    res = core.sharded('harness.adapters.collimpl', 'replay_chunk', items)
    ctx.add_replayed(len(items), sum(r['steps'] for r in res), sum(1 for it in items if any(s['st']['delay'] > 0 and s['st']['queue'] > 0 for s in it['steps'])))
    for r in res:
        for d in r['div']:
            ctx.report(core.Divergence.from_json(d))
    ctx.sample({'source': label, 'acts': [s['act']['op'] + ':' + str(s['act']['d'] if s['act']['d'] != '-' else s['act']['g']) for s in items[len(items) // 2]['steps']]})


REPO_TESTS_QUICK = ['glue/core/tests/test_subset_group.py', 'glue/core/tests/test_data_collection.py', 'glue/core/tests/test_command.py',
                    'glue/core/tests/test_state.py', 'glue/core/tests/test_application_base.py', 'glue/core/tests/test_edit_subset_mode.py']
REPO_TESTS_THOROUGH = REPO_TESTS_QUICK + ['glue/core/tests/test_data.py', 'glue/core/tests/test_link_manager.py', 'glue/core/tests/test_subset.py',
                                          'glue/core/tests/test_session_back_compat.py', 'glue/core/tests/test_data_combo_helper.py',
                                          'glue/viewers', 'glue/dialogs', 'glue/plugins', 'glue/core/data_factories/tests']


def _e2(ctx, wd, quick):
    """code -> spec: DataCollections of the repository's own tests, recorded by harness/glue_tracer.py, validated by TLC
    against Trace_Collection.tla (membership required after every traced call)"""
    repo = core.use_repo()
    _, traces, tail = hubtrace.record_repo_tests(wd.file('repotests.json'), REPO_TESTS_QUICK if quick else REPO_TESTS_THOROUGH, repo,
                                                 want_collections=True)
    if len(traces) < 50:
        raise core.MachineryFailure('tracer recorded only %d collection traces from the repository tests:\n%s' % (len(traces), tail))
    accepted, rejected, states, kept = colltrace.validate(wd, traces)
    ctx.add_traces(kept, accepted)
    ops = {}
    for t in traces:
        for e in t['events']:
            ops[e['ev']] = ops.get(e['ev'], 0) + 1
    ctx.cov['tlc_runs'].append({'label': 'E2 Trace_Collection.tla', 'traces': kept, 'events': sum(ops.values()), 'events_by_kind': ops,
                                'distinct_states': states, 'rejected': len(rejected)})
    ctx.cov['states'] += states
    for need in ('Append', 'Remove', 'NewGroup', 'RemoveGroup', 'Observe'):
        if not ops.get(need):
            raise core.MachineryFailure('vacuous trace validation: no %s event recorded' % need)
    for t, eix in rejected:
        ev = t['events']
        e = ev[eix - 1] if eix <= len(ev) else {'ev': 'end'}
        ctx.report(core.Divergence({'trace': t, 'first_unmatched': eix}, eix, 'trace event', 'the membership C06 requires after %s' % e['ev'],
                                   {k: e.get(k) for k in ('coll', 'groups', 'subs', 'members', 'strays', 'delay')}, kind='trace:' + e['ev'],
                                   note='recorded DataCollection of the repository tests rejected by Trace_Collection.tla; preceding events: %s'
                                        % [x['ev'] + ':' + str(x.get('d', x.get('g', ''))) for x in ev[max(0, eix - 6):eix]]))
    t = traces[len(traces) // 3]
    ctx.sample({'source': 'E2 collection trace (repository tests)', 'events': [x['ev'] + ':' + str(x.get('d', x.get('g', ''))) for x in t['events'][:20]]})
    bad, kinds = [], {}
    for t in traces:
        for kind, ev in colltrace.corruptions(t):
            if kinds.get(kind, 0) < 5:
                kinds[kind] = kinds.get(kind, 0) + 1
                bad.append({'events': ev, 'kind': kind})
    need = ['missing_subset', 'duplicate_subset', 'group_misses_member', 'dead_group_subset', 'stray', 'not_appended', 'group_reused']
    missing = [k for k in need if k not in kinds]
    if missing:
        raise core.MachineryFailure('binding self-test: no recorded trace exhibits the situation needed for %s' % missing)
    a2, rej2, st2, kept2 = colltrace.validate(wd, bad, batch=1000)
    if a2 != 0 or len(rej2) != len(bad):
        raise core.MachineryFailure('binding self-test: %d of %d impossible collection traces were ACCEPTED by Trace_Collection.tla' % (a2, len(bad)))
    ctx.cov['tlc_runs'].append({'label': 'E2 binding self-test', 'corrupted_traces': len(bad), 'rejected': len(rej2), 'kinds': kinds})


def replay(div):
    if 'trace' in div.behaviour:
        with tlc.Workdir() as wd:
            accepted, rejected, states, kept = colltrace.validate(wd, [div.behaviour['trace']])
        if not rejected:
            print('replay: trace accepted')
            return 0
        print('VIOLATION property=C06 replay=(given)')
        print('  first unmatched event %d' % rejected[0][1])
        return 1
    if div.behaviour.get('spec') == 'CollectionImpl':
        from harness.adapters import collimpl
        from harness.core import use_repo
        use_repo()
        r = collimpl.replay_one(div.behaviour)
        if r is None:
            print('replay: behaviour conforms')
            return 0
        print('VIOLATION property=C06 replay=(given)')
        print('  step %s %s: expected %s got %s (%s)' % r)
        return 1
    if div.behaviour.get('spec') == 'Commands' or 'max_undo' in div.behaviour:
        from harness.checks import c13
        return c13.replay(div, 'C06')
    res = A.replay_one(div.behaviour)
    if res is None:
        print('replay: behaviour conforms')
        return 0
    print('VIOLATION property=C06 replay=(given)')
    print('  step %s %s: expected %s got %s %s' % res)
    return 1
