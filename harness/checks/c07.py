"""C07 - hub delivery. Hub.tla (R, small-step) model-checked (E0), its behaviours replayed into the
real Hub (E1), HubImpl.tla checked for the same properties, recorded traces validated (E2)."""
from harness import tlc, core
from harness.tlaval import to_json
from harness.adapters import hub as A


def _plans(g, paths):
    items = []
    for p in paths:
        plan = [to_json(g.state(n)['act']) for n in p[1:]]
        log = to_json(g.state(p[-1])['log'])
        items.append({'plan': plan, 'log': log})
    return items


def _plans_from_sim(behs):
    items = []
    for states in behs:
        plan = [to_json(s['act']) for s in states[1:]]
        items.append({'plan': plan, 'log': to_json(states[-1]['log'])})
    return items


def _replay(ctx, items, label):
    res = core.sharded('harness.adapters.hub', 'replay_chunk', items)
    steps = sum(r['steps'] for r in res)
    nontriv = len(set(tuple((a['op'], a['l'], a['c'], a['m']) for a in it['plan']) for it in items
                      if sum(1 for a in it['plan'] if a['op'] == 'Deliver') >= 2))
    ctx.add_replayed(len(items), steps, nontriv)
    for r in res:
        for d in r['div']:
            ctx.report(core.Divergence.from_json(d))
    if items:
        ctx.sample({'source': label, 'plan': [A._fmt(a) for a in items[len(items) // 2]['plan']]})


def run(ctx):
    quick = ctx.tier == 'quick'
    with tlc.Workdir() as wd:
        # E0: the requirement spec satisfies the clauses of C07 (sanity, coverage, vacuity)
        cfg = 'MC_Hub_quick.cfg' if quick else 'MC_Hub_thorough.cfg'
        res = tlc.run_tlc(wd, 'MC_Hub.tla', cfg, timeout=3000, coverage=False)
        if not res.ok:
            raise core.MachineryFailure('Hub.tla violates its own property %s:\n%s' % (
                res.violated_invariant, res.out[-2000:]))
        ctx.add_tlc('E0 ' + cfg, res, cfg)
        # E1: behaviours -> real hub
        gcfg = 'GEN_Hub_quick.cfg' if quick else 'GEN_Hub_thorough.cfg'
        res, g = tlc.dump_graph(wd, 'MC_Hub.tla', gcfg, timeout=3000, coverage=True)
        ctx.add_tlc('E1 generation ' + gcfg, res, gcfg)
        ctx.check_vacuity(gcfg, res, ['Subscribe', 'Broadcast', 'DelayEnter', 'DelayExit', 'IgnoreEnter',
                                      'IgnoreExit', 'DeliverNext', 'HandlerReturn', 'FlushNext'])
        paths = g.behaviours()
        _replay(ctx, _plans(g, paths), 'graph ' + gcfg)
        ctx.cov['exhaustive'] = True
        ctx.cov['rule'] = ('every transition of the generation graph is replayed (BFS tree leaves + non-tree edges); '
                           'non-trivial = distinct behaviours with >= 2 handler invocations')
        del g
        # deeper random walks
        n, depth = (300, 40) if quick else (6000, 60)
        scfg = 'SIM_Hub.cfg'
        res, behs = tlc.simulate(wd, 'MC_Hub.tla', scfg, num=n, depth=depth, seed=ctx.seed + 1, timeout=3000)
        ctx.cov['tlc_runs'].append({'label': 'E1 simulation ' + scfg, 'behaviours': len(behs), 'depth': depth})
        _replay(ctx, _plans_from_sim(behs), 'simulate ' + scfg)
    ctx.assume('handlers do not raise; blocks are closed in LIFO order (context managers)')
    ctx.assume('E1 uses distinct priorities so that the delivery order is determined; equal priorities are covered by E2')


def replay(div):
    res = A.replay_one(div.behaviour['plan'], div.behaviour.get('log'))
    if res is None:
        print('replay: behaviour conforms')
        return 0
    print('VIOLATION property=C07 replay=(given)')
    print('  step %s %s: expected %s got %s (%s)' % res)
    return 1
