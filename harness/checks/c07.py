"""C07 - hub delivery. Hub.tla (R, small-step) model-checked (E0), its behaviours replayed into the
real Hub (E1), HubImpl.tla checked for the same properties, recorded traces validated (E2)."""
import os

from harness import tlc, core, hubtrace
from harness.tlaval import to_json
from harness.adapters import hub as A


def _plans(g, paths):
    items = []
    for p in paths:
        plan = [to_json(g.state(n)['act']) for n in p[1:]]
        log = to_json(g.state(p[-1])['log'])
        items.append({'plan': plan, 'log': log})
    return items


def _plans_from_sim(behs):
    items = []
    for states in behs:
        plan = [to_json(s['act']) for s in states[1:]]
        items.append({'plan': plan, 'log': to_json(states[-1]['log'])})
    return items


def _replay(ctx, items, label):
    res = core.sharded('harness.adapters.hub', 'replay_chunk', items)
    steps = sum(r['steps'] for r in res)
    nontriv = len(set(tuple((a['op'], a['l'], a['c'], a['m']) for a in it['plan']) for it in items
                      if sum(1 for a in it['plan'] if a['op'] == 'Deliver') >= 2))
    ctx.add_replayed(len(items), steps, nontriv)
    for r in res:
        for d in r['div']:
            ctx.report(core.Divergence.from_json(d))
    if items:
        ctx.sample({'source': label, 'plan': [A._fmt(a) for a in items[len(items) // 2]['plan']]})


def run(ctx):
    quick = ctx.tier == 'quick'
    with tlc.Workdir() as wd:
        # E0: the requirement spec satisfies the clauses of C07 (sanity, coverage, vacuity)
        cfg = 'MC_Hub_quick.cfg' if quick else 'MC_Hub_thorough.cfg'
        res = tlc.run_tlc(wd, 'MC_Hub.tla', cfg, timeout=3000, coverage=False)
        if not res.ok:
            raise core.MachineryFailure('Hub.tla violates its own property %s:\n%s' % (
                res.violated_invariant, res.out[-2000:]))
        ctx.add_tlc('E0 ' + cfg, res, cfg)
        # E1: behaviours -> real hub
        gcfg = 'GEN_Hub_quick.cfg' if quick else 'GEN_Hub_thorough.cfg'
        res, g = tlc.dump_graph(wd, 'MC_Hub.tla', gcfg, timeout=3000, coverage=True)
        ctx.add_tlc('E1 generation ' + gcfg, res, gcfg)
        ctx.check_vacuity(gcfg, res, ['Subscribe', 'BroadcastM', 'DelayEnter', 'DelayExit', 'IgnoreEnter',
                                      'IgnoreExit', 'DeliverNext', 'HandlerReturn', 'FlushNextAcc'])
        paths = g.behaviours()
        _replay(ctx, _plans(g, paths), 'graph ' + gcfg)
        ctx.cov['exhaustive'] = True
        ctx.cov['rule'] = ('every transition of the generation graph is replayed (BFS tree leaves + non-tree edges); '
                           'non-trivial = distinct behaviours with >= 2 handler invocations')
        del g
        # deeper random walks
        n, depth = (300, 40) if quick else (6000, 60)
        scfg = 'SIM_Hub.cfg'
        res, behs = tlc.simulate(wd, 'MC_Hub.tla', scfg, num=n, depth=depth, seed=ctx.seed + 1, timeout=3000)
        ctx.cov['tlc_runs'].append({'label': 'E1 simulation ' + scfg, 'behaviours': len(behs), 'depth': depth})
        _replay(ctx, _plans_from_sim(behs), 'simulate ' + scfg)
        _e2(ctx, wd, quick)
    ctx.assume('handlers do not raise; blocks are closed in LIFO order (context managers)')
    ctx.assume('E1 uses distinct priorities so that the delivery order is determined; equal priorities are covered by E2')


REPO_TESTS_QUICK = ['glue/core/tests/test_hub.py', 'glue/core/tests/test_subset_group.py', 'glue/core/tests/test_data_collection.py',
                    'glue/core/tests/test_command.py', 'glue/core/tests/test_edit_subset_mode.py']
REPO_TESTS_THOROUGH = REPO_TESTS_QUICK + ['glue/core/tests/test_application_base.py', 'glue/core/tests/test_state.py',
                                          'glue/core/tests/test_data.py', 'glue/core/tests/test_link_manager.py',
                                          'glue/core/tests/test_subset.py', 'glue/core/tests/test_data_combo_helper.py',
                                          'glue/viewers/image/tests', 'glue/viewers/scatter/tests', 'glue/viewers/histogram/tests',
                                          'glue/viewers/profile/tests', 'glue/viewers/common/tests', 'glue/dialogs', 'glue/plugins']


def _e2(ctx, wd, quick):
    """code -> spec: executions of the real Hub recorded by harness/glue_tracer.py, validated with TLC (Trace_Hub.tla)"""
    repo = core.use_repo()
    count, nops = (400, 40) if quick else (6000, 80)
    traces = []
    per = (count + 15) // 16
    jobs = [(ctx.seed * 100000 + k * per, per, nops) for k in range(16)]
    import concurrent.futures as cf
    with cf.ThreadPoolExecutor(16) as ex:
        futs = [ex.submit(hubtrace.record_driver, wd.file('drv%d.json' % k), j[0], j[1], j[2], repo) for k, j in enumerate(jobs)]
        ftest = ex.submit(hubtrace.record_repo_tests, wd.file('repotests.json'), REPO_TESTS_QUICK if quick else REPO_TESTS_THOROUGH, repo)
        for f in futs:
            traces += f.result()
        rtraces, tail = ftest.result()
    for t in rtraces:
        t['source'] = 'repository tests'
    nd = len(traces)
    if len(rtraces) < 20:
        raise core.MachineryFailure('tracer recorded only %d hub traces from the repository tests:\n%s' % (len(rtraces), tail))
    accepted, rejected, states, kept = hubtrace.validate(wd, traces + rtraces)
    ctx.add_traces(kept, accepted)
    nev = sum(min(len(t['events']), hubtrace.MAX_EVENTS) for t in traces + rtraces)
    ctx.cov['tlc_runs'].append({'label': 'E2 Trace_Hub.tla', 'traces': kept, 'driver_traces': nd, 'repo_test_traces': len(rtraces),
                                'events': nev, 'distinct_states': states, 'rejected': len(rejected)})
    ctx.cov['states'] = ctx.cov.get('states', 0) + states
    for t, eix in rejected:
        ev = t['events']
        got = _short(ev[eix - 1]) if eix <= len(ev) else 'end of trace'
        ctx.report(core.Divergence({'trace': t, 'first_unmatched': eix}, eix, 'trace event',
                                   'an event allowed by Hub.tla after ' + ' ; '.join(_short(e) for e in ev[max(0, eix - 4):eix - 1]),
                                   got, kind='trace:' + (ev[eix - 1]['ev'] if eix <= len(ev) else 'end'),
                                   note='recorded execution of the real Hub rejected by Trace_Hub.tla (source: %s)' % t.get('source', 'driver seed %s' % t.get('seed'))))
    if traces:
        t = traces[len(traces) // 2]
        ctx.sample({'source': 'E2 driver trace seed %s' % t.get('seed'), 'events': [_short(e) for e in t['events'][:25]]})
    # binding self-test: impossible variants of recorded traces must be rejected
    bad, kinds = [], {}
    for t in traces[:60] + rtraces[:60]:
        for kind, ev in hubtrace.corruptions(t):
            if kinds.get(kind, 0) < 6:
                kinds[kind] = kinds.get(kind, 0) + 1
                bad.append({'events': ev, 'classes': t['classes'], 'kind': kind})
    need = ['fate', 'deliver_to_stranger', 'filter_outcome', 'wrong_subscription', 'lost_queued', 'flush_order', 'no_delay',
            'deliver_while_delayed', 'delivered_twice']
    missing = [k for k in need if k not in kinds]
    if missing:
        raise core.MachineryFailure('binding self-test: no recorded trace exhibits the situation needed for %s' % missing)
    a2, rej2, st2, kept2 = hubtrace.validate(wd, bad, batch=1000, domain=False)
    if a2 != 0 or len(rej2) != len(bad) or kept2 != len(bad):
        rejected_ids = set(id(r[0]) for r in rej2)
        raise core.MachineryFailure('binding self-test: %d of %d impossible traces were ACCEPTED by Trace_Hub.tla (kinds %s)' % (
            a2, len(bad), sorted(set(b['kind'] for b in hubtrace.prepare(bad, False) if id(b) not in rejected_ids))))
    ctx.cov['tlc_runs'].append({'label': 'E2 binding self-test', 'corrupted_traces': len(bad), 'rejected': len(rej2), 'kinds': kinds})


def _short(e):
    return e['ev'] + '(' + ','.join('%s=%s' % (k, e[k]) for k in ('l', 'c', 'p', 'm', 'fate', 'exc') if k in e) + ')'


def replay(div):
    if 'trace' in div.behaviour:
        return _replay_trace(div)
    return _replay_plan(div)


def _replay_trace(div):
    """re-record the execution (driver seed) on the current tree, or re-validate the stored trace"""
    t = div.behaviour['trace']
    with tlc.Workdir() as wd:
        if 'seed' in t:
            traces = hubtrace.record_driver(wd.file('drv.json'), t['seed'], 1, t.get('nops', 40), core.use_repo())
        else:
            traces = [t]
        accepted, rejected, states, kept = hubtrace.validate(wd, traces)
    if not rejected:
        print('replay: trace accepted')
        return 0
    print('VIOLATION property=C07 replay=(given)')
    for tr, eix in rejected:
        print('  first unmatched event %d: %s' % (eix, tr['events'][max(0, eix - 4):eix]))
    return 1


def _replay_plan(div):
    res = A.replay_one(div.behaviour['plan'], div.behaviour.get('log'))
    if res is None:
        print('replay: behaviour conforms')
        return 0
    print('VIOLATION property=C07 replay=(given)')
    print('  step %s %s: expected %s got %s (%s)' % res)
    return 1
