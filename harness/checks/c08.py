"""C08 - region geometry. Geometry.tla: exact integer geometry of every region class on a lattice with rational rotation
angles; TLC computes the contained set and the exact-boundary band after every action of short action sequences; real
ROI objects are driven through the same actions and contains() compared off the band, in several array layouts (E1)."""
from harness import tlc, core
from harness.tlaval import to_json
from harness.adapters import geometry as A


def _roi(r):
    d = {k: r[k] for k in ('k', 'x0', 'x1', 'y0', 'y1', 'xc', 'yc', 'rx', 'ry', 'poly')}
    d['th'] = {'name': r['th']['name']}
    return d


def run(ctx):
    quick = ctx.tier == 'quick'
    cfg = 'MC_Geometry_quick.cfg' if quick else 'MC_Geometry_thorough.cfg'
    with tlc.Workdir() as wd:
        res, g = tlc.dump_graph(wd, 'MC_Geometry.tla', cfg, timeout=6000)
        if not res.ok:
            raise core.MachineryFailure('Geometry.tla fails its own checks')
        ctx.add_tlc('E0+generation ' + cfg, res, cfg)
        items = []
        for p in g.behaviours():
            sts = [g.state(n) for n in p][1:]
            if not sts:
                continue
            items.append({'grid': 8, 'step': 10,
                          'steps': [{'act': to_json(s['act']), 'roi': _roi(s['roi']),
                                     'inside': sorted(list(x) for x in s['inside']), 'band': sorted(list(x) for x in s['band'])}
                                    for s in sts]})
        del g
    kinds = {}
    for it in items:
        kinds[it['steps'][0]['roi']['k']] = kinds.get(it['steps'][0]['roi']['k'], 0) + 1
    for k in ('rect', 'circle', 'ellipse', 'annulus', 'xrange', 'yrange', 'poly'):
        if not kinds.get(k):
            raise core.MachineryFailure('vacuous enumeration: no region of kind %s' % k)
    ctx.cov['regions_by_kind'] = kinds
    ctx.check_ops(cfg, items, ['pick', 'MoveTo', 'RotateTo', 'Copy', 'SaveRestore', 'ToPolygon'])
    res = core.sharded('harness.adapters.geometry', 'replay_chunk', items)
    nontriv = sum(1 for it in items if len(it['steps']) >= 2 and it['steps'][-1]['inside'])
    ctx.add_replayed(len(items), sum(r['steps'] for r in res), nontriv)
    for r in res:
        for d in r['div']:
            ctx.report(core.Divergence.from_json(d))
    for comp, want, got in A.projected3d_check():
        ctx.report(core.Divergence({'spec': 'Geometry/Projected3d', 'check': comp}, 0, comp, want, got, kind='contains3d'))
    ctx.sample({'acts': [s['act'] for s in items[len(items) // 2]['steps']], 'roi': items[len(items) // 2]['steps'][0]['roi'],
                'inside_size': len(items[len(items) // 2]['steps'][-1]['inside'])})
    ctx.cov['exhaustive'] = True
    ctx.cov['rule'] = ('every region of the menu x every action sequence up to the bound; 289 lattice points per check, 4 array layouts; '
                       'non-trivial = sequences with at least one action and a non-empty contained set')
    ctx.assume('coordinates on the 1/20 lattice and angles with rational sine/cosine (multiples of pi/2, 3-4-5, 5-12-13) or within 1e-10 of '
               'a quarter turn; lattice points exactly on a boundary are not compared; polygon approximation compared for rectangles and polygons only')


def replay(div):
    from harness.core import use_repo
    use_repo()
    b = div.behaviour
    if b.get('spec') != 'Geometry':
        out = A.projected3d_check()
        print(out or 'conforms')
        return 1 if out else 0
    r = A.replay_one(b)
    if r is None:
        print('replay: behaviour conforms')
        return 0
    print('VIOLATION property=C08 replay=(given)')
    print('  step %s %s: expected %s got %s (%s)' % r)
    return 1
