"""C09 - region to selection. RoiToSubset.tla (on Geometry.tla): for every region, axis-kind pair and category count TLC
computes which plotted positions the region contains; roi_to_subset_state is applied on real data (numeric and
categorical columns, scrambled row order, a missing value) and the selection mask compared off the boundary (E1)."""
from harness import tlc, core
from harness.tlaval import parse_state
from harness.adapters import roitosubset as A


def _roi(r):
    d = {k: r[k] for k in ('k', 'xk', 'yk', 'nx', 'ny')}
    d['cats'] = sorted(r['cats'])
    if r['k'] != 'catset':
        for k in ('x0', 'x1', 'y0', 'y1', 'xc', 'yc', 'rx', 'ry', 'poly'):
            d[k] = r[k]
        d['th'] = {'name': r['th']['name']}
    return d


def run(ctx):
    cfg = 'MC_RoiToSubset_quick.cfg'
    with tlc.Workdir() as wd:
        res, chunks = tlc.dump_states(wd, 'MC_RoiToSubset.tla', cfg, timeout=3000)
        ctx.add_tlc('E0+generation ' + cfg, res, cfg)
    items = []
    reps = 2 if ctx.tier == 'quick' else 6
    for k, c in enumerate(chunks):
        s = parse_state(c)
        if s['picked']:
            for v in range(reps):
                items.append({'roi': _roi(s['roi']), 'inside': sorted(list(p) for p in s['inside']),
                              'band': sorted(list(p) for p in s['band']), 'variant': ctx.seed + k * 8 + v})
    paths = {}
    for it in items:
        key = (it['roi']['k'], it['roi']['xk'], it['roi']['yk'])
        paths[key] = paths.get(key, 0) + 1
    need = [('xrange', 'cat', 'num'), ('yrange', 'num', 'cat'), ('rect', 'cat', 'cat'), ('rect', 'cat', 'num'), ('circle', 'cat', 'cat'),
            ('poly', 'cat', 'num'), ('poly', 'num', 'cat'), ('circle', 'num', 'num'), ('catset', 'cat', 'num')]
    missing = [k for k in need if not paths.get(k)]
    if missing:
        raise core.MachineryFailure('vacuous enumeration: conversion paths never exercised: %s' % missing)
    ctx.cov['configurations_by_path'] = {'/'.join(k): v for k, v in sorted(paths.items())}
    res = core.sharded('harness.adapters.roitosubset', 'replay_chunk', items)
    ctx.add_replayed(len(items), len(items), sum(1 for it in items if it['inside'] and (it['roi']['xk'] == 'cat' or it['roi']['yk'] == 'cat')))
    for r in res:
        for d in r['div']:
            ctx.report(core.Divergence.from_json(d))
    ctx.sample(items[len(items) // 2])
    ctx.cov['exhaustive'] = True
    ctx.cov['rule'] = ('every (region, axis kinds, category counts) of the model; elements are all combinations of plotted positions; '
                       'non-trivial = at least one categorical axis and a non-empty selection')
    ctx.assume('categories are plotted in the order of the component\'s categories array (sorted labels); region edges on the quarter-unit '
               'grid; elements exactly on the region boundary are not compared')


def replay(div):
    from harness.core import use_repo
    use_repo()
    b = div.behaviour
    r = A.check_one(b['roi'], b['inside'], b['band'], b['variant'])
    if r is None:
        print('replay: configuration conforms')
        return 0
    print('VIOLATION property=C09 replay=(given)')
    print('  %s: expected %s got %s' % (r[0], r[1], r[2]))
    return 1
