"""C10 - statistics and histograms. Stats.tla: TLC computes which source positions reduce into which output cell
(view, axes, selection, filters) and the bin of every histogram value; the harness computes the statistics from those
positions with exact rational arithmetic and compares Data.compute_statistic for every statistic and every chunk
limit, and Data.compute_histogram (plain and weighted) (E1)."""
from harness import tlc, core
from harness.tlaval import parse_state, to_json
from harness.adapters import stats as A


def _cfg(c):
    if c['kind'] == 'stat':
        return {'kind': 'stat', 'shape': list(c['shape']), 'view': [dict(v) for v in c['view']], 'axes': sorted(c['axes']),
                'sel': {'k': c['sel']['k'], 's': sorted(c['sel']['s']), 'box': [list(b) for b in c['sel']['box']]},
                'positive': c['positive']}
    h = c['h']
    return {'kind': 'hist', 'h': {'vals': list(h['vals']), 'sel': sorted(h['sel']), 'lo': h['lo'], 'hi': h['hi'], 'n': h['n'],
                                  'log': h['log']}}


def _exp(e):
    if e['kind'] == 'stat':
        return {'oshape': list(e['oshape']), 'kept': [sorted(k) for k in e['kept']]}
    return {'total': e['total'], 'upper': [sorted(b) for b in e['upper']], 'lower': [sorted(b) for b in e['lower']]}


def run(ctx):
    quick = ctx.tier == 'quick'
    cfg = 'MC_Stats_quick.cfg' if quick else 'MC_Stats_thorough.cfg'
    with tlc.Workdir() as wd:
        res, chunks = tlc.dump_states(wd, 'MC_Stats.tla', cfg, timeout=3000)
        ctx.add_tlc('E0+generation ' + cfg, res, cfg)
    items = []
    for k, c in enumerate(chunks):
        s = parse_state(c)
        if s['picked']:
            items.append({'cfg': _cfg(s['cfg']), 'exp': _exp(s['exp']), 'variant': k + ctx.seed})
    kinds = {}
    for it in items:
        kinds[it['cfg']['kind']] = kinds.get(it['cfg']['kind'], 0) + 1
    if not kinds.get('stat') or not kinds.get('hist'):
        raise core.MachineryFailure('vacuous enumeration: %s' % kinds)
    ctx.cov['configurations'] = kinds
    res = core.sharded('harness.adapters.stats', 'replay_chunk', items)
    nontriv = sum(1 for it in items if (it['cfg']['kind'] == 'stat' and any(it['exp']['kept']) and it['cfg']['sel']['k'] != 'none')
                  or (it['cfg']['kind'] == 'hist' and it['exp']['total'] > 0))
    ctx.add_replayed(len(items), len(items), nontriv)
    for r in res:
        for d in r['div']:
            ctx.report(core.Divergence.from_json(d))
    ctx.sample(items[len(items) // 3])
    ctx.sample(items[-1])
    ctx.cov['statistics'] = A.STATS
    ctx.cov['exhaustive'] = True
    ctx.cov['rule'] = ('every (shape, view, axes, selection, positive) configuration x 7 statistics x 2 axis spellings x 5 chunk limits; '
                       'every histogram configuration plain and weighted; non-trivial = a selection with at least one non-empty cell / a '
                       'histogram with at least one value in range')
    ctx.assume('finite=True throughout (with finite=False numpy\'s plain reducers and the NaN-aware ones differ when NaN is present); '
               'integer-valued data so that every statistic is exactly representable; views are positive-step slices')
    ctx.assume('a sum over an empty cell may be NaN or 0; interior bin-edge ties may all go up or all go down')


def replay(div):
    from harness.core import use_repo
    use_repo()
    b = div.behaviour
    r = A.check_one(b['cfg'], b['exp'], b['variant'])
    if r is None:
        print('replay: configuration conforms')
        return 0
    print('VIOLATION property=C10 replay=(given)')
    print('  %s: expected %s got %s' % (r[0], r[1], r[2]))
    return 1
