"""C11 - key joins. Joins.tla computes, for every dataset, the set of admissible masks (one per simple join path)
or 'incompatible'; TLC checks the requirement's own properties (E0) and enumerates join/selection histories that are
replayed into real Data objects under several storage variants of the key columns (E1)."""
from harness import tlc, core
from harness.tlaval import to_json
from harness.adapters import joins as A


def _exp(e):
    return {str(d): sorted(sorted(m) for m in ms) for d, ms in e.items()}


def _act(a):
    return {'op': a['op'], 'j': a['j'], 's': {'src': a['s']['src'], 'sel': sorted(a['s']['sel'])}}


def _base(state_lists):
    return [[{'act': _act(s['act']), 'exp': _exp(s['exp'])} for s in sl[1:]] for sl in state_lists]


def _expand(base, variants):
    items = []
    for i, steps in enumerate(base):
        for v in variants:
            items.append({'variant': v, 'selkind': ('element', 'inequality')[i % 2], 'api': ('joinlink', 'join_on_key')[(i // 2) % 2],
                          'steps': steps})
    return items


def _replay(ctx, items, label):
    res = core.sharded('harness.adapters.joins', 'replay_chunk', items)
    steps = sum(r['steps'] for r in res)
    nontriv = len(set((it['variant'], tuple((s['act']['op'], s['act']['j'], s['act']['s']['src'], tuple(s['act']['s']['sel']))
                                            for s in it['steps']))
                      for it in items if any(m for d, ms in it['steps'][-1]['exp'].items() for m in ms if 0 < len(m) < 3)))
    ctx.add_replayed(len(items), steps, nontriv)
    for r in res:
        for d in r['div']:
            ctx.report(core.Divergence.from_json(d))
    if items:
        it = items[len(items) // 2]
        ctx.sample({'source': label, 'variant': it['variant'], 'acts': [s['act'] for s in it['steps']],
                    'expected_last': it['steps'][-1]['exp']})


def run(ctx):
    quick = ctx.tier == 'quick'
    variants = list(A.VARIANTS)
    with tlc.Workdir() as wd:
        cfg = 'MC_Joins_quick.cfg'
        res = tlc.run_tlc(wd, 'MC_Joins.tla', cfg, timeout=3000)
        if not res.ok:
            raise core.MachineryFailure('Joins.tla fails its own checks: %s\n%s' % (res.violated_invariant, res.out[-1500:]))
        ctx.add_tlc('E0 ' + cfg, res, cfg)
        gcfg = 'GEN_Joins_quick.cfg' if quick else 'GEN_Joins_thorough.cfg'
        res, g = tlc.dump_graph(wd, 'MC_Joins.tla', gcfg, timeout=3000)
        ctx.add_tlc('E1 generation ' + gcfg, res, gcfg)
        base = _base([[g.state(n) for n in p] for p in g.behaviours()])
        items = _expand(base, variants)
        ctx.check_ops(gcfg, items, ['AddJoin', 'RemoveJoin', 'Select'])
        _replay(ctx, items, 'graph ' + gcfg)
        ctx.cov['exhaustive'] = True
        del g
        n, depth = (200, 20) if quick else (4000, 30)
        res, behs = tlc.simulate(wd, 'MC_Joins.tla', 'SIM_Joins.cfg', num=n, depth=depth, seed=ctx.seed + 1, timeout=3000)
        ctx.cov['tlc_runs'].append({'label': 'E1 simulation SIM_Joins.cfg', 'behaviours': len(behs), 'depth': depth})
        _replay(ctx, _expand(_base(behs), variants), 'simulate SIM_Joins.cfg')
    ctx.cov['storage_variants'] = variants
    ctx.cov['rule'] = ('every transition of the join/selection history graph replayed under every storage variant of the key '
                       'columns; non-trivial = distinct (variant, history) whose final expected masks include a proper non-empty mask')
    ctx.assume('key alphabet of 3 abstract keys stored as ints of several widths, floats, half-integers, strings of several widths; '
               'single-column joins through JoinLink or Data.join_on_key, multi-column joins through Data.join_on_key')


def replay(div):
    res = A.replay_one(div.behaviour)
    if res is None:
        print('replay: behaviour conforms')
        return 0
    print('VIOLATION property=C11 replay=(given)')
    print('  step %s %s: expected %s got %s %s' % res)
    return 1
