"""C12 - serialisation protocol versions. Versions.tla: (a) VersionedDict as a state machine, every call sequence replayed
into the real class (E1); (b) the saver/loader registries and the rename table of the current tree are extracted and given
to TLC as constants: consecutive versions, loader for every saver version, rename walk terminates, in-package targets
import, no capture of a class this package still defines; (c) every (Data, DataCollection) version pair is written with
that version's saver and loaded back."""
from harness import tlc, core
from harness.tlaval import to_json
from harness.adapters import versions as A


def run(ctx):
    consts = A.extract()
    ctx.cov['registry_entries'] = len(consts['reg'])
    ctx.cov['rename_table_entries'] = len(consts['patch'])
    with tlc.Workdir() as wd:
        wd.write('Versions_Gen.tla', A.gen_module(consts))
        # (b) first, clause by clause: a violated clause is a property violation of the tree, not a failure of the machinery
        base = open(wd.file('MC_Versions_b.cfg')).read()
        for inv in ('Reg_Consecutive', 'Reg_LoaderForEverySaver', 'Patch_Functional', 'Patch_Terminates', 'Patch_TargetsResolve'):
            wd.write('MC_Versions_b_%s.cfg' % inv, base + 'INVARIANT %s\n' % inv)
            rb = tlc.run_tlc(wd, 'MC_Versions.tla', 'MC_Versions_b_%s.cfg' % inv, workers=1, timeout=600)
            ctx.cov['states'] += rb.distinct
            if rb.violated_invariant == inv or 'invariant of %s is equal to FALSE' % inv in rb.out:
                ctx.report(core.Divergence({'spec': 'Versions/registries', 'clause': inv, 'witness': A.witness(inv, consts)}, 0, inv, 'TRUE',
                                           'FALSE: ' + str(A.witness(inv, consts))[:400], kind='registry:' + inv))
                # the combined run below would stop at this clause: repair the constants for it so that the rest is still checked
                consts = A.without(inv, consts)
                wd.write('Versions_Gen.tla', A.gen_module(consts))
            elif not rb.ok:
                raise core.MachineryFailure('MC_Versions_b %s failed:\n%s' % (inv, rb.out[-1500:]))
        res, g = tlc.dump_graph(wd, 'MC_Versions.tla', 'MC_Versions.cfg', timeout=3000)
        # dump_graph raises if an invariant fails; re-run plainly to tell which
        ctx.add_tlc('E0 MC_Versions.cfg (VersionedDict + registries + rename table)', res, 'MC_Versions.cfg')
        # the rename table as the implementation resolves it, against the ends of the chains computed by TLC
        import re
        from harness.tlaval import parse_value
        mt = re.search(r'<<\s*"TERMINALS",(.*?)>>', res.out, re.S)
        if not mt:
            raise core.MachineryFailure('TLC did not print the TERMINALS of the rename table')
        terminals = {str(k): str(v) for k, v in parse_value(mt.group(1)).items()}
        if len(terminals) != len(set(k for k, _ in consts['patch'])):
            raise core.MachineryFailure('TERMINALS covers %d of %d rename-table keys' % (len(terminals), len(consts['patch'])))
        ctx.cov['rename_chains_resolved_in_package'] = sum(1 for v in terminals.values() if v in set(consts['importable']))
        for comp, want, got in A.resolution_problems(terminals, consts):
            ctx.report(core.Divergence({'spec': 'Versions/resolution', 'check': comp}, 0, comp, want, got, kind='patch_resolution'))
        items = []
        for p in g.behaviours():
            sts = [g.state(n) for n in p]
            items.append({'steps': [{'act': to_json(s['act']), 'last': to_json(s['last']),
                                     'vd': {str(k): sorted(v) for k, v in s['vd'].items()}} for s in sts[1:]]})
        del g
        ctx.check_ops('MC_Versions.cfg', items, ['Set', 'Get', 'GetVersion', 'Contains', 'Delete'])
        r = core.sharded('harness.adapters.versions', 'replay_chunk', items)
        ctx.add_replayed(len(items), sum(x['steps'] for x in r), sum(1 for it in items if sum(1 for s in it['steps'] if s['act']['op'] == 'Set' and s['last']['ok']) >= 2))
        for x in r:
            for d in x['div']:
                ctx.report(core.Divergence.from_json(d))
        ctx.sample({'calls': [s['act'] for s in items[len(items) // 2]['steps']]})
        # the no-capture clause
        res2 = tlc.run_tlc(wd, 'MC_Versions.tla', 'MC_Versions_capture.cfg', timeout=600)
        ctx.cov['states'] += res2.distinct
        if res2.violated_invariant == 'Patch_NoCapture' or 'invariant of Patch_NoCapture is equal to FALSE' in res2.out:
            captured = sorted(set(k for k, _ in consts['patch']) & set(consts['defined']))
            for k in captured:
                target = dict(consts['patch'])[k]
                ctx.report(core.Divergence({'spec': 'Versions/Patch', 'key': k, 'target': target}, 0, 'patch_capture[%s]' % k,
                                           'no redirection of a class this package defines and writes', '%s -> %s' % (k, target),
                                           kind='patch_capture'))
        elif not res2.ok:
            raise core.MachineryFailure('MC_Versions_capture failed:\n' + res2.out[-1500:])
        # (c) what each version pair carries
        vcfg = 'MC_VersionContent_quick.cfg' if ctx.tier == 'quick' else 'MC_VersionContent_thorough.cfg'
        res3, chunks = tlc.dump_states(wd, 'MC_VersionContent.tla', vcfg, timeout=3000)
        ctx.add_tlc('E0+generation ' + vcfg, res3, vcfg)
        from harness.tlaval import parse_state
        vitems = []
        for c in chunks:
            st = parse_state(c)
            if st['picked']:
                vitems.append({'dv': st['cfg']['dv'], 'cv': st['cfg']['cv'], 'F': sorted(st['cfg']['F']), 'exp': sorted(st['exp'])})
    if len(set((v['dv'], v['cv']) for v in vitems)) < 20:
        raise core.MachineryFailure('vacuous: only %d version pairs enumerated' % len(set((v['dv'], v['cv']) for v in vitems)))
    r = core.sharded('harness.adapters.vercontent', 'replay_chunk', vitems)
    ctx.add_replayed(len(vitems), len(vitems), sum(1 for v in vitems if len(v['exp']) >= 2))
    ctx.cov['version_content_configurations'] = len(vitems)
    for x in r:
        for d in x['div']:
            ctx.report(core.Divergence.from_json(d))
    ctx.sample(vitems[len(vitems) // 2])
    bad, n = A.pinned_roundtrips()
    ctx.add_replayed(n, n, n)
    ctx.cov['version_pairs_roundtripped'] = n
    for comp, want, got in bad:
        ctx.report(core.Divergence({'spec': 'Versions/pinned', 'check': comp}, 0, comp, want, got, kind=comp.split('[')[0]))
    ctx.cov['exhaustive'] = True
    ctx.cov['rule'] = ('every call sequence of length <= 5 over 2 keys x versions 0..3; the complete registries and rename table of the '
                       'tree; every (Data version, DataCollection version) pair; non-trivial = sequences with >= 2 accepted Set calls')
    ctx.assume('Defined = rename-table keys that still resolve to a class in this tree; equivalence of old versions compared on labels, '
               'component order and values, style (Data >= 2), meta (Data >= 5), subset groups and masks (DataCollection >= 2)')


def replay(div):
    from harness.core import use_repo
    use_repo()
    b = div.behaviour
    if b.get('spec') == 'VersionContent':
        from harness.adapters import vercontent
        import warnings
        warnings.simplefilter('ignore')
        r = vercontent.check_one(b['dv'], b['cv'], b['F'], b['exp'])
        if r is None:
            print('replay: configuration conforms')
            return 0
        print('VIOLATION property=C12 replay=(given)')
        print('  %s: expected %s got %s' % r)
        return 1
    if b.get('spec') == 'Versions':
        r = A.replay_one(b)
        if r is None:
            print('replay: behaviour conforms')
            return 0
        print('VIOLATION property=C12 replay=(given)')
        print('  step %s %s: expected %s got %s' % r)
        return 1
    print('re-run the check: the divergence concerns the registries / rename table of the tree')
    return 1
