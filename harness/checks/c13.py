"""C13 - undo/redo. Commands.tla (R: snapshot restore) model-checked (E0); every do/undo/redo word to a depth
and random deep words replayed into a real Session/CommandStack (E1)."""
from harness import tlc, core
from harness.tlaval import to_json
from harness.adapters import commands as A

VARS = ('coll', 'groups', 'gstate', 'edit', 'mode', 'done', 'undone')


def _st(s):
    d = {k: to_json(s[k]) for k in ('coll', 'groups', 'gstate', 'edit', 'mode')}
    d['done'] = [0] * len(s['done'])
    d['undone'] = [0] * len(s['undone'])
    return d


def _items(states_lists, max_undo):
    return [{'steps': [{'act': to_json(s['act']), 'st': _st(s)} for s in sl[1:]], 'max_undo': max_undo}
            for sl in states_lists]


def _replay(ctx, items, label):
    res = core.sharded('harness.adapters.commands', 'replay_chunk', items)
    steps = sum(r['steps'] for r in res)
    def key(it):
        return tuple((s['act']['op'], s['act']['c']['k'], s['act']['c']['d'], tuple(s['act']['c']['leaf']), s['act']['c']['ov'])
                     for s in it['steps'])
    nontriv = len(set(key(it) for it in items
                      if sum(1 for s in it['steps'] if s['act']['op'] in ('Undo', 'Redo')) >= 1
                      and sum(1 for s in it['steps'] if s['act']['op'] == 'Do') >= 2))
    ctx.add_replayed(len(items), steps, nontriv)
    for r in res:
        for d in r['div']:
            ctx.report(core.Divergence.from_json(d))
    if items:
        ctx.sample({'source': label, 'word': [_fmt(s['act']) for s in items[len(items) // 2]['steps']]})


def _fmt(a):
    c = {k: v for k, v in a['c'].items() if v not in ('-', [], 'none')}
    r = {'op': a['op']}
    if c:
        r['c'] = c
    if a['e']:
        r['e'] = a['e']
    return r


def run(ctx):
    quick = ctx.tier == 'quick'
    with tlc.Workdir() as wd:
        cfg = 'MC_Commands_quick.cfg' if quick else 'MC_Commands_thorough.cfg'
        res = tlc.run_tlc(wd, 'MC_Commands.tla', cfg, timeout=3000)
        if not res.ok:
            raise core.MachineryFailure('Commands.tla fails its own checks: %s\n%s' % (res.violated_invariant, res.out[-1500:]))
        ctx.add_tlc('E0 ' + cfg, res, cfg)
        gcfg = 'GEN_Commands_quick.cfg' if quick else 'GEN_Commands_thorough.cfg'
        res, g = tlc.dump_graph(wd, 'MC_Commands.tla', gcfg, timeout=3000, coverage=True)
        ctx.add_tlc('E1 generation ' + gcfg, res, gcfg)
        paths = g.behaviours()
        items = _items([[g.state(n) for n in p] for p in paths], 2)
        ctx.check_ops(gcfg, items, ['Do', 'Undo', 'Redo', 'SetMode', 'SetEdit', 'SetupAppend', 'SetupNewGroup'])
        _replay(ctx, items, 'graph ' + gcfg)
        ctx.cov['exhaustive'] = True
        del g
        # undo/redo-heavy words (deep interleavings across the command that created a group; undo across a dataset removal)
        for ucfg in ('GEN_Commands_undo.cfg', 'GEN_Commands_undo2.cfg'):
            res, g = tlc.dump_graph(wd, 'MC_Commands.tla', ucfg, timeout=3000)
            ctx.add_tlc('E1 generation ' + ucfg, res, ucfg)
            items = _items([[g.state(n) for n in p] for p in g.behaviours()], 3)
            ctx.check_ops(ucfg, items, ['Do', 'Undo', 'Redo'])
            _replay(ctx, items, 'graph ' + ucfg)
            del g
        n, depth = (400, 30) if quick else (8000, 50)
        res, behs = tlc.simulate(wd, 'MC_Commands.tla', 'SIM_Commands.cfg', num=n, depth=depth, seed=ctx.seed + 1,
                                 timeout=3000)
        ctx.cov['tlc_runs'].append({'label': 'E1 simulation SIM_Commands.cfg', 'behaviours': len(behs), 'depth': depth})
        _replay(ctx, _items(behs, 3), 'simulate SIM_Commands.cfg')
    ctx.cov['rule'] = ('every transition of the depth-bounded graph of do/undo/redo words replayed + random words; '
                       'non-trivial = distinct words with >= 2 do and >= 1 undo/redo')
    ctx.assume('the collection is compared as a set (re-adding a dataset on undo may change its position); group labels '
               'and colours are not part of the compared state; no foreign (non-command) mutation once a history exists')
    ctx.assume('private reads: CommandStack._command_stack/_undo_stack lengths; glue.core.command.MAX_UNDO is set to the model bound')


def replay(div, prop='C13'):
    res = A.replay_one(div.behaviour)
    if res is None:
        print('replay: behaviour conforms')
        return 0
    print('VIOLATION property=%s replay=(given)' % prop)
    print('  step %s %s: expected %s got %s %s' % res)
    return 1
