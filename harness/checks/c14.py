"""C14 - derived attributes. (a) Derived.tla: TLC enumerates every expression tree to a depth and computes the exact
expected values of the + - * trees; each tree is evaluated as a derived attribute (arithmetic on identifiers, user
function, parsed text) on the whole dataset and under views and compared with scalar element-wise evaluation.
(b) DataStruct.tla histories: removal is transitive and exact, update_id keeps values and order (shared with C17)."""
from harness import tlc, core
from harness.tlaval import parse_state
from harness.adapters import derived as A
from harness.checks import c17


def run(ctx):
    quick = ctx.tier == 'quick'
    cfg = 'MC_Derived_thorough.cfg'
    with tlc.Workdir() as wd:
        res, chunks = tlc.dump_states(wd, 'MC_Derived.tla', cfg, timeout=3000)
        ctx.add_tlc('E0+generation ' + cfg, res, cfg)
        items = []
        for c in chunks:
            s = parse_state(c)
            if s['picked']:
                items.append({'tree': [str(x) for x in s['cfg']['tree']],
                              'exp': {'exact': s['exp']['exact'], 'vals': list(s['exp']['vals'])}})
        if quick:
            items = [it for k, it in enumerate(items) if len(it['tree']) <= 3 or (k + ctx.seed) % 3 == 0]
        n_exact = sum(1 for it in items if it['exp']['exact'])
        if n_exact == 0 or n_exact == len(items):
            raise core.MachineryFailure('vacuous enumeration of expression trees')
        res = core.sharded('harness.adapters.derived', 'replay_chunk', items)
        ctx.add_replayed(len(items), sum(r['steps'] for r in res), sum(1 for it in items if len(it['tree']) >= 3))
        for r in res:
            for d in r['div']:
                ctx.report(core.Divergence.from_json(d))
        ctx.sample(items[len(items) // 2])
        ctx.cov['trees'] = len(items)
        ctx.cov['trees_with_exact_TLC_values'] = n_exact
        # (b) dependency histories
        gcfg = 'GEN_DataStruct_quick.cfg' if quick else 'GEN_DataStruct_thorough.cfg'
        res, g = tlc.dump_graph(wd, 'MC_DataStruct.tla', gcfg, timeout=3000)
        ctx.add_tlc('E1 generation ' + gcfg, res, gcfg)
        hist = c17.items_of([[g.state(n) for n in p] for p in g.behaviours()])
        hist = [h for h in hist if any(s['act']['op'] in ('AddDerived', 'Remove', 'UpdateId', 'UpdateFrom') for s in h['steps'])]
        ctx.check_ops(gcfg, hist, ['AddDerived', 'Remove', 'UpdateId'])
        c17.replay_items(ctx, hist, 'graph ' + gcfg + ' (derived/remove/update_id histories)')
        # the dependency sub-protocol, deeper: define derived attributes in any order, reorder, remove
        dcfg = 'GEN_DataStruct_deps.cfg'
        res, g = tlc.dump_graph(wd, 'MC_DataStruct.tla', dcfg, timeout=3000)
        ctx.add_tlc('E1 generation ' + dcfg, res, dcfg)
        hist = c17.items_of([[g.state(n) for n in p] for p in g.behaviours()])
        hist = [h for h in hist if any(s['act']['op'] == 'Remove' for s in h['steps']) and any(s['act']['op'] == 'AddDerived' for s in h['steps'])]
        ctx.check_ops(dcfg, hist, ['AddDerived', 'Remove', 'Reorder', 'AddMain'])
        c17.replay_items(ctx, hist, 'graph ' + dcfg + ' (dependency sub-protocol)')
    ctx.cov['exhaustive'] = not quick
    ctx.cov['rule'] = ('every expression tree of depth <= 2 (quick: all depth-1 trees and every third depth-2 tree) x 3 ways of '
                       'defining the attribute x 6 views; non-trivial = trees with at least one operator; plus every Data mutation '
                       'history to the depth bound that adds/removes derived attributes or re-identifies an attribute')
    ctx.assume('integer-valued leaves: + - * trees have TLC-computed exact values; / and ** trees are evaluated element by element '
               'with numpy scalar arithmetic of the operands\' own dtypes (IEEE semantics, no broadcasting)')
    ctx.assume('update_id explored only for attributes nothing depends on (the statement does not say what happens to dependants)')


def replay(div):
    from harness.core import use_repo
    use_repo()
    if div.behaviour.get('spec') == 'Derived':
        r = A.check_one(div.behaviour['tree'], div.behaviour['exp'])
        if r is None:
            print('replay: configuration conforms')
            return 0
        print('VIOLATION property=C14 replay=(given)')
        print('  %s: expected %s got %s' % (r[0], r[1], r[2]))
        return 1
    return c17.replay(div)
