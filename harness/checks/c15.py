"""C15 - world coordinates. Coords.tla: TLC enumerates every invertible integer affine map in 1-3 dimensions and computes
the world values at every array position integer-exactly; world attributes (whole array and views), the automatic
pixel<->world links and direct calls of the transformation are compared on a real Data (E1)."""
from harness import tlc, core
from harness.tlaval import parse_state
from harness.adapters import coords as A


def run(ctx):
    quick = ctx.tier == 'quick'
    cfg = 'MC_Coords_quick.cfg' if quick else 'MC_Coords_thorough.cfg'
    with tlc.Workdir() as wd:
        res, chunks = tlc.dump_states(wd, 'MC_Coords.tla', cfg, timeout=6000)
        ctx.add_tlc('E0+generation ' + cfg, res, cfg)
    items = []
    for c in chunks:
        s = parse_state(c)
        if s['picked']:
            items.append({'cfg': {'n': s['cfg']['n'], 'M': [list(r) for r in s['cfg']['M']], 'T': list(s['cfg']['T']),
                                  'shape': list(s['cfg']['shape'])},
                          'exp': {'world': [list(w) for w in s['exp']['world']], 'dep': [sorted(x) for x in s['exp']['dep']]}})
    by_n = {}
    for it in items:
        by_n[it['cfg']['n']] = by_n.get(it['cfg']['n'], 0) + 1
    if sorted(by_n) != [1, 2, 3]:
        raise core.MachineryFailure('vacuous enumeration: dimensions covered %s' % sorted(by_n))
    ctx.cov['matrices_by_dim'] = by_n
    res = core.sharded('harness.adapters.coords', 'replay_chunk', items)
    def offdiag(it):
        M = it['cfg']['M']
        return any(M[i][j] for i in range(len(M)) for j in range(len(M)) if i != j)
    ctx.add_replayed(len(items), len(items), sum(1 for it in items if offdiag(it)))
    for r in res:
        for d in r['div']:
            ctx.report(core.Divergence.from_json(d))
    ctx.sample(items[len(items) // 2])
    ctx.cov['exhaustive'] = True
    ctx.cov['rule'] = 'every invertible matrix over the entry set; non-trivial = at least one off-diagonal entry (coupled or permuted axes)'
    ctx.assume('integer matrices and translations: world values are exactly representable; inverse compared within 1e-9; astropy WCS not explored')


def replay(div):
    from harness.core import use_repo
    use_repo()
    r = A.check_one(div.behaviour['cfg'], div.behaviour['exp'])
    if r is None:
        print('replay: configuration conforms')
        return 0
    print('VIOLATION property=C15 replay=(given)')
    print('  %s: expected %s got %s' % (r[0], r[1], r[2]))
    return 1
