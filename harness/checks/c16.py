"""C16 - fixed-resolution buffers. Frb.tla: TLC computes the nearest source pixel (or OUT) of every sample for every
frame map and bounds, and enumerates every sequence of requests under one cache id; each sequence runs on real linked
datasets through compute_fixed_resolution_buffer with and without cache_id (E1)."""
from harness import tlc, core
from harness.tlaval import to_json, parse_value
from harness.adapters import frb as A


def _frame(f):
    def src(s):
        return {'shape': list(s['shape']), 'pi': list(s['pi']), 's': list(s['s']), 'o': list(s['o'])}
    return {'ashape': list(f['ashape']), 'b': src(f['b']), 'b2': src(f['b2'])}


BOUNDS = [
    [{'k': 'range', 'lo': -7, 'step': 8, 'n': 5}, {'k': 'range', 'lo': 1, 'step': 8, 'n': 4}],
    [{'k': 'scalar', 'v': 8}, {'k': 'range', 'lo': -5, 'step': 4, 'n': 9}],
    [{'k': 'scalar', 'v': 16}, {'k': 'range', 'lo': -5, 'step': 4, 'n': 9}],
    [{'k': 'range', 'lo': 3, 'step': 8, 'n': 3}, {'k': 'scalar', 'v': 0}],
    [{'k': 'range', 'lo': 67, 'step': 8, 'n': 2}, {'k': 'range', 'lo': 1, 'step': 8, 'n': 2}],
    [{'k': 'scalar', 'v': 13}, {'k': 'range', 'lo': 1, 'step': 8, 'n': 4}],
    [{'k': 'range', 'lo': -7, 'step': 8, 'n': 5}, {'k': 'scalar', 'v': -5}],
]


def run(ctx):
    quick = ctx.tier == 'quick'
    cfg = 'MC_Frb_quick.cfg' if quick else 'MC_Frb_thorough.cfg'
    with tlc.Workdir() as wd:
        res, g = tlc.dump_graph(wd, 'MC_Frb.tla', cfg, timeout=3000)
        ctx.add_tlc('E0+generation ' + cfg, res, cfg)
        items = []
        for p in g.behaviours():
            sts = [g.state(n) for n in p]
            reqs = [s for s in sts if s['act']['op'] == 'request']
            if not reqs:
                continue
            items.append({'frame': _frame(reqs[0]['frame']),
                          'steps': [{'req': {'src': s['act']['src'], 'what': s['act']['what'], 'bounds': s['act']['bounds']},
                                     'exp': {'shape': list(s['exp']['shape']), 'lin': list(s['exp']['lin'])}} for s in reqs]})
        del g
    if not items:
        raise core.MachineryFailure('no request sequences generated')
    # the bounds table of the harness must be the one of the model (checked on the first range of every tuple by size)
    for it in items[:200]:
        for s in it['steps']:
            sizes = [b['n'] for b in BOUNDS[s['req']['bounds'] - 1] if b['k'] == 'range']
            if sizes != s['exp']['shape']:
                raise core.MachineryFailure('bounds table of the harness differs from MC_Frb.tla')
    res = core.sharded('harness.adapters.frb', 'replay_chunk', items, extra={'bounds': BOUNDS})
    nontriv = sum(1 for it in items if len(it['steps']) >= 2 and any(any(x >= 0 for x in s['exp']['lin']) and any(x < 0 for x in s['exp']['lin'])
                                                                    for s in it['steps']))
    ctx.add_replayed(len(items), sum(r['steps'] for r in res), nontriv)
    for r in res:
        for d in r['div']:
            ctx.report(core.Divergence.from_json(d))
    ctx.sample(items[len(items) // 2])
    ctx.cov['exhaustive'] = True
    ctx.cov['rule'] = ('every request sequence up to the bound under one cache id, for every frame configuration; each request is made '
                       'with and without cache_id; non-trivial = sequences of >= 2 requests with a buffer partly inside the source')
    ctx.assume('sample positions on a 1/8-pixel grid away from rounding ties; integer scale/offset/permutation links between pixel axes; '
               'data unchanged between requests (in-place mutation is C05)')


def replay(div):
    from harness.core import use_repo
    use_repo()
    b = div.behaviour
    r = A.replay_one({'frame': b['frame'], 'steps': b['steps']}, b['bounds'])
    if r is None:
        print('replay: behaviour conforms')
        return 0
    print('VIOLATION property=C16 replay=(given)')
    print('  step %s %s: expected %s got %s' % (r[0], r[1], r[2], r[3]))
    return 1
