"""C17 - dataset structure and announcements (and the dependency half of C14). DataStruct.tla model-checked (E0);
every history of valid and invalid Data mutations to a depth and random walks replayed into a real Data (E1)."""
from harness import tlc, core
from harness.tlaval import to_json
from harness.adapters import datastruct as A

PROP = 'C17'


def _lookup(s):
    """find_component_id(label of n) for every present n, by the documented precedence (mirrors DataStruct!Lookup;
    the spec operator is model-checked, this is its evaluation on the exported state)."""
    comps = [(c['n'], c['k']) for c in s['comps']]
    lab = dict(s['labels']) if not isinstance(s['labels'], tuple) else None
    if lab is None:
        return {}
    out = {}
    for n, k in comps:
        l = lab[n]
        res = 'none'
        for cls in (('main',), ('derived',), ('pixel', 'world')):
            m = [x for x, kk in comps if kk in cls and lab[x] == l]
            if m:
                res = m[0] if len(m) == 1 else 'none'
                break
        out[str(n)] = str(res)
    return out


def _st(s):
    return {'comps': [{'n': c['n'], 'k': c['k']} for c in s['comps']], 'coords': s['coords'], 'shape': s['shape'],
            'label': s['label'], 'hub': s['hub'], 'lookup': _lookup(s)}


def _ann(a):
    return {'spec': sorted([str(x[0]), str(x[1])] for x in a['spec']), 'gen': sorted(a['gen']), 'quiet': a['quiet'],
            'raises': a['raises']}


def items_of(state_lists):
    return [{'steps': [{'act': to_json(s['act']), 'st': _st(s), 'ann': _ann(s['ann'])} for s in sl[1:]]} for sl in state_lists]


OPS = ['Attach', 'AddDup', 'AddMain', 'AddMainBadShape', 'ReAddValues', 'AddDerived', 'Remove', 'RemoveAbsent', 'Reorder',
       'UpdateId', 'UpdateIdAbsent', 'Rename', 'UpdateValues', 'UpdateValuesBadShape', 'UpdateFrom', 'SetCoords', 'SetLabel']


def replay_items(ctx, items, label):
    res = core.sharded('harness.adapters.datastruct', 'replay_chunk', items)
    steps = sum(r['steps'] for r in res)
    nontriv = len(set(tuple((s['act']['op'], s['act']['n'], s['act']['m']) for s in it['steps']) for it in items
                      if sum(1 for s in it['steps'] if not s['ann']['quiet']) >= 2))
    ctx.add_replayed(len(items), steps, nontriv)
    for r in res:
        for d in r['div']:
            ctx.report(core.Divergence.from_json(d))
    if items:
        ctx.sample({'source': label, 'acts': [s['act'] for s in items[len(items) // 2]['steps']]})


def run(ctx, prop=PROP):
    quick = ctx.tier == 'quick'
    with tlc.Workdir() as wd:
        cfg = 'MC_DataStruct_quick.cfg' if quick else 'MC_DataStruct_thorough.cfg'
        res = tlc.run_tlc(wd, 'MC_DataStruct.tla', cfg, timeout=3000)
        if not res.ok:
            raise core.MachineryFailure('DataStruct.tla fails its own checks: %s\n%s' % (res.violated_invariant, res.out[-1500:]))
        ctx.add_tlc('E0 ' + cfg, res, cfg)
        gcfg = 'GEN_DataStruct_quick.cfg' if quick else 'GEN_DataStruct_thorough.cfg'
        res, g = tlc.dump_graph(wd, 'MC_DataStruct.tla', gcfg, timeout=3000)
        ctx.add_tlc('E1 generation ' + gcfg, res, gcfg)
        items = items_of([[g.state(n) for n in p] for p in g.behaviours()])
        ctx.check_ops(gcfg, items, OPS)
        replay_items(ctx, items, 'graph ' + gcfg)
        ctx.cov['exhaustive'] = True
        del g
        n, depth = (400, 25) if quick else (8000, 40)
        res, behs = tlc.simulate(wd, 'MC_DataStruct.tla', 'SIM_DataStruct.cfg', num=n, depth=depth, seed=ctx.seed + 1,
                                 timeout=3000)
        ctx.cov['tlc_runs'].append({'label': 'E1 simulation SIM_DataStruct.cfg', 'behaviours': len(behs), 'depth': depth})
        replay_items(ctx, items_of(behs), 'simulate SIM_DataStruct.cfg')
    ctx.cov['rule'] = ('every transition of the depth-bounded history graph of Data mutations (valid and invalid arguments) '
                       'replayed + random walks; non-trivial = distinct histories with >= 2 state-changing calls')
    ctx.assume('update_id / rename explored only for attributes nothing depends on; update_values_from_data with the same '
               'dimensionality and the same coordinate object; announcements compared once the dataset is in a collection')
    ctx.assume('component-specific announcements must match exactly; generic ones at least once; nothing when the call changed nothing or raised')


def replay(div):
    res = A.replay_one(div.behaviour)
    if res is None:
        print('replay: behaviour conforms')
        return 0
    print('VIOLATION property=%s replay=(given)' % PROP)
    print('  step %s %s: expected %s got %s %s' % res)
    return 1
