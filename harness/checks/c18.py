"""C18 - viewers and pickers. Viewer.tla part 1: collection/viewer histories (append, remove, groups, add/remove data on
the viewer, hub delay blocks, save+restore of the viewer) with the required layer set; replayed into the base Viewer
exhaustively and into the four matplotlib viewers on a sample. Part 2: ComponentIDComboHelper choices and selection under
attribute add/remove/reorder, dataset add/remove and kind filters (E1)."""
from harness import tlc, core
from harness.tlaval import to_json
from harness.adapters import viewer as A


def _st1(s):
    return {'coll': sorted(s['coll']), 'groups': sorted(s['groups']), 'layers': sorted([str(k[0]), int(k[1])] for k in s['layers']), 'delay': s['delay']}


def _choices(s):
    # Choices is an operator of the spec; it is re-evaluated here from the exported state in the same order
    f = s['filt']
    out = []
    for d in s['pdata']:
        at = list(s['attrs'][d])
        for a in at:
            if (a['k'] == 'num' and f['numeric']) or (a['k'] == 'cat' and f['categorical']):
                out.append({'d': str(d), 'n': str(a['n'])})
        for a in at:
            if a['k'] == 'derived' and f['numeric'] and f['derived']:
                out.append({'d': str(d), 'n': str(a['n'])})
    return out


def _st2(s):
    return {'choices': _choices(s), 'sel': {'d': str(s['sel']['d']), 'n': str(s['sel']['n'])},
            'attrs': {str(d): [{'n': str(a['n']), 'k': str(a['k'])} for a in v] for d, v in s['attrs'].items()}}


def run(ctx):
    quick = ctx.tier == 'quick'
    items = []
    with tlc.Workdir() as wd:
        res, g = tlc.dump_graph(wd, 'MC_Viewer.tla', 'GEN_Viewer1_quick.cfg', timeout=3000)
        ctx.add_tlc('E0+E1 generation GEN_Viewer1_quick.cfg', res, 'GEN_Viewer1_quick.cfg')
        base1 = [[{'act': to_json(g.state(n)['act']), 'st': _st1(g.state(n))} for n in p[1:]] for p in g.behaviours()]
        del g
        for k, steps in enumerate(base1):
            items.append({'part': 1, 'viewer': 'base', 'steps': steps})
            if not any(s['act']['op'] == 'SaveRestoreViewer' for s in steps) or True:
                if (k + ctx.seed) % (12 if quick else 2) == 0:
                    items.append({'part': 1, 'viewer': A.VIEWERS[1 + (k // 12) % 4], 'steps': steps})
        # one dataset, one group: every history on each matplotlib viewer
        res, g = tlc.dump_graph(wd, 'MC_Viewer.tla', 'GEN_Viewer1_one.cfg', timeout=3000)
        ctx.add_tlc('E0+E1 generation GEN_Viewer1_one.cfg', res, 'GEN_Viewer1_one.cfg')
        one = [[{'act': to_json(g.state(n)['act']), 'st': _st1(g.state(n))} for n in p[1:]] for p in g.behaviours()]
        del g
        for k, steps in enumerate(one):
            for j, kind in enumerate(A.VIEWERS[1:]):
                if quick and kind != 'image' and (k + j + ctx.seed) % 3 != 0:
                    continue
                items.append({'part': 1, 'viewer': kind, 'steps': steps})
        n, depth = (60, 14) if quick else (1500, 25)
        res, behs = tlc.simulate(wd, 'MC_Viewer.tla', 'SIM_Viewer1.cfg', num=n, depth=depth, seed=ctx.seed + 1, timeout=3000)
        for k, sl in enumerate(behs):
            steps = [{'act': to_json(s['act']), 'st': _st1(s)} for s in sl[1:]]
            items.append({'part': 1, 'viewer': A.VIEWERS[k % 5], 'steps': steps})
        res, g = tlc.dump_graph(wd, 'MC_Viewer.tla', 'GEN_Viewer2_quick.cfg', timeout=3000)
        ctx.add_tlc('E0+E1 generation GEN_Viewer2_quick.cfg', res, 'GEN_Viewer2_quick.cfg')
        for p in g.behaviours():
            items.append({'part': 2, 'steps': [{'act': to_json(g.state(n)['act']), 'st': _st2(g.state(n))} for n in p[1:]]})
        del g
    # part 3: dataset pickers
    with tlc.Workdir() as wd:
        dcfg = 'GEN_DataPickers_quick.cfg' if quick else 'GEN_DataPickers_thorough.cfg'
        res, g = tlc.dump_graph(wd, 'MC_DataPickers.tla', dcfg, timeout=3000)
        ctx.add_tlc('E0+E1 generation ' + dcfg, res, dcfg)
        ditems = []
        for p in g.behaviours():
            steps = []
            for n in p[1:]:
                s = g.state(n)
                coll = [str(x) for x in s['coll']]
                steps.append({'act': to_json(s['act']), 'st': {'delay': s['delay'], 'cchoices': coll,
                                                                 'mchoices': [str(x) for x in s['mdata'] if str(x) in coll],
                                                                 'csel': str(s['csel']), 'msel': str(s['msel'])}})
            ditems.append({'steps': steps})
        del g
    ctx.check_ops('DataPickers', ditems, ['Append', 'Remove', 'ManualAppend', 'ManualRemove', 'Relabel', 'SelectC', 'SelectM', 'DelayEnter', 'DelayExit'])
    dres = core.sharded('harness.adapters.datapickers', 'replay_chunk', ditems)
    ctx.add_replayed(len(ditems), sum(r['steps'] for r in dres), sum(1 for it in ditems if len(it['steps']) >= 3))
    ctx.cov['datapicker_behaviours'] = len(ditems)
    for r in dres:
        for d in r['div']:
            ctx.report(core.Divergence.from_json(d))
    ctx.check_ops('Viewer parts 1+2', items, ['Append', 'Remove', 'NewGroup', 'RemoveGroup', 'ViewerAddData', 'ViewerRemoveData',
                                              'SaveRestoreViewer', 'DelayEnter', 'DelayExit', 'NewAlone', 'DeleteAlone', 'RemoveLayer', 'AddSubsetLayer', 'PickerAddData', 'PickerRemoveData',
                                              'AttrAdd', 'AttrRemove', 'AttrReorder', 'SetFilter', 'Select'])
    by_viewer = {}
    for it in items:
        by_viewer[it.get('viewer', 'picker')] = by_viewer.get(it.get('viewer', 'picker'), 0) + 1
    ctx.cov['behaviours_by_viewer'] = by_viewer
    res = core.sharded('harness.adapters.viewer', 'replay_chunk', items, chunk=40)
    ctx.add_replayed(len(items), sum(r['steps'] for r in res), sum(1 for it in items if len(it['steps']) >= 3))
    for r in res:
        for d in r['div']:
            ctx.report(core.Divergence.from_json(d))
    ctx.sample({'viewer': items[7].get('viewer'), 'acts': [s['act'] for s in items[7]['steps']]})
    ctx.cov['exhaustive'] = True
    ctx.cov['rule'] = ('every history of <= 5 collection/viewer operations on the base Viewer, a seed-chosen sample of them and random walks '
                       'on the four matplotlib viewers, every history of <= 4 picker operations; non-trivial = histories of >= 3 steps')
    ctx.assume('layers compared as a set plus agreement of viewer.layers with viewer.state.layers (order included) when no hub delay block '
               'is open; the picker may select any remaining choice when its selection disappears; viewers are saved through a small '
               'harness-side Bundle(application, viewers) because the base Application does not track its viewers')


def replay(div):
    from harness.core import use_repo
    use_repo()
    b = div.behaviour
    if b.get('spec') == 'DataPickers':
        from harness.adapters import datapickers
        r = datapickers.replay_one(b)
        if r is None:
            print('replay: behaviour conforms')
            return 0
        print('VIOLATION property=C18 replay=(given)')
        print('  step %s %s: expected %s got %s' % (r[0], r[1], r[2], r[3]))
        return 1
    r = A.replay_layers(b) if b['part'] == 1 else A.replay_picker(b)
    if r is None:
        print('replay: behaviour conforms')
        return 0
    print('VIOLATION property=C18 replay=(given)')
    print('  step %s %s: expected %s got %s' % (r[0], r[1], r[2], r[3]))
    return 1
