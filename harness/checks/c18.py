"""C18 - viewers and pickers. Viewer.tla part 1: collection/viewer histories (append, remove, groups, add/remove data on
the viewer, hub delay blocks, save+restore of the viewer) with the required layer set; replayed into the base Viewer
exhaustively and into the four matplotlib viewers on a sample. Part 2: ComponentIDComboHelper choices and selection under
attribute add/remove/reorder, dataset add/remove and kind filters (E1)."""
from harness import tlc, core, hubtrace, viewertrace
from harness.tlaval import to_json
from harness.adapters import viewer as A


def _st1(s):
    return {'coll': sorted(s['coll']), 'groups': sorted(s['groups']), 'layers': sorted([str(k[0]), int(k[1])] for k in s['layers']), 'delay': s['delay']}


def _choices(s):
    # Choices is an operator of the spec; it is re-evaluated here from the exported state in the same order
    f = s['filt']
    out = []
    for d in s['pdata']:
        at = list(s['attrs'][d])
        for a in at:
            if (a['k'] == 'num' and f['numeric']) or (a['k'] == 'cat' and f['categorical']) or (a['k'] == 'time' and f['datetime']):
                out.append({'d': str(d), 'n': str(a['n'])})
        for a in at:
            if a['k'] == 'derived' and f['numeric'] and f['derived']:
                out.append({'d': str(d), 'n': str(a['n'])})
    return out


def _st2(s):
    return {'choices': _choices(s), 'sel': {'d': str(s['sel']['d']), 'n': str(s['sel']['n'])},
            'attrs': {str(d): [{'n': str(a['n']), 'k': str(a['k'])} for a in v] for d, v in s['attrs'].items()}}


def run(ctx):
    quick = ctx.tier == 'quick'
    items = []
    with tlc.Workdir() as wd:
        res, g = tlc.dump_graph(wd, 'MC_Viewer.tla', 'GEN_Viewer1_quick.cfg', timeout=3000)
        ctx.add_tlc('E0+E1 generation GEN_Viewer1_quick.cfg', res, 'GEN_Viewer1_quick.cfg')
        base1 = [[{'act': to_json(g.state(n)['act']), 'st': _st1(g.state(n))} for n in p[1:]] for p in g.behaviours()]
        del g
        for k, steps in enumerate(base1):
            items.append({'part': 1, 'viewer': 'base', 'steps': steps})
            if not any(s['act']['op'] == 'SaveRestoreViewer' for s in steps) or True:
                if (k + ctx.seed) % (12 if quick else 2) == 0:
                    items.append({'part': 1, 'viewer': A.VIEWERS[1 + (k // 12) % 4], 'steps': steps})
        # two datasets in the viewer at the time it is saved and restored (layers of unlinked datasets are disabled): every such
        # history on the scatter and the image viewer
        def two_then_save(steps):
            shown = set()
            for st in steps:
                a = st['act']
                if a['op'] == 'ViewerAddData':
                    shown.add(a['d'])
                elif a['op'] in ('ViewerRemoveData', 'Remove'):
                    shown.discard(a['d'])
                elif a['op'] == 'SaveRestoreViewer' and len(shown) >= 2:
                    return True
            return False
        for steps in base1:
            if two_then_save(steps):
                for kind in ('scatter', 'image'):
                    items.append({'part': 1, 'viewer': kind, 'steps': steps})
        # one dataset, one group: every history on each matplotlib viewer
        res, g = tlc.dump_graph(wd, 'MC_Viewer.tla', 'GEN_Viewer1_one.cfg', timeout=3000)
        ctx.add_tlc('E0+E1 generation GEN_Viewer1_one.cfg', res, 'GEN_Viewer1_one.cfg')
        one = [[{'act': to_json(g.state(n)['act']), 'st': _st1(g.state(n))} for n in p[1:]] for p in g.behaviours()]
        del g
        for k, steps in enumerate(one):
            for j, kind in enumerate(A.VIEWERS[1:]):
                if quick and kind != 'image' and (k + j + ctx.seed) % 3 != 0:
                    continue
                items.append({'part': 1, 'viewer': kind, 'steps': steps})
        n, depth = (60, 14) if quick else (1500, 25)
        res, behs = tlc.simulate(wd, 'MC_Viewer.tla', 'SIM_Viewer1.cfg', num=n, depth=depth, seed=ctx.seed + 1, timeout=3000)
        for k, sl in enumerate(behs):
            steps = [{'act': to_json(s['act']), 'st': _st1(s)} for s in sl[1:]]
            items.append({'part': 1, 'viewer': A.VIEWERS[k % 5], 'steps': steps})
        res, g = tlc.dump_graph(wd, 'MC_Viewer.tla', 'GEN_Viewer2_quick.cfg', timeout=3000)
        ctx.add_tlc('E0+E1 generation GEN_Viewer2_quick.cfg', res, 'GEN_Viewer2_quick.cfg')
        for p in g.behaviours():
            items.append({'part': 2, 'steps': [{'act': to_json(g.state(n)['act']), 'st': _st2(g.state(n))} for n in p[1:]]})
        del g
    # part 3: dataset pickers
    with tlc.Workdir() as wd:
        dcfg = 'GEN_DataPickers_quick.cfg' if quick else 'GEN_DataPickers_thorough.cfg'
        res, g = tlc.dump_graph(wd, 'MC_DataPickers.tla', dcfg, timeout=3000)
        ctx.add_tlc('E0+E1 generation ' + dcfg, res, dcfg)
        ditems = []
        for p in g.behaviours():
            steps = []
            for n in p[1:]:
                s = g.state(n)
                coll = [str(x) for x in s['coll']]
                steps.append({'act': to_json(s['act']), 'st': {'delay': s['delay'], 'cchoices': coll,
                                                                 'mchoices': [str(x) for x in s['mdata'] if str(x) in coll],
                                                                 'csel': str(s['csel']), 'msel': str(s['msel'])}})
            ditems.append({'steps': steps})
        del g
    ctx.check_ops('DataPickers', ditems, ['Append', 'Remove', 'ManualAppend', 'ManualRemove', 'Relabel', 'SelectC', 'SelectM', 'DelayEnter', 'DelayExit'])
    dres = core.sharded('harness.adapters.datapickers', 'replay_chunk', ditems)
    ctx.add_replayed(len(ditems), sum(r['steps'] for r in dres), sum(1 for it in ditems if len(it['steps']) >= 3))
    ctx.cov['datapicker_behaviours'] = len(ditems)
    for r in dres:
        for d in r['div']:
            ctx.report(core.Divergence.from_json(d))
    _e2(ctx, quick)
    ctx.check_ops('Viewer parts 1+2', items, ['Append', 'Remove', 'NewGroup', 'RemoveGroup', 'ViewerAddData', 'ViewerRemoveData',
                                              'SaveRestoreViewer', 'DelayEnter', 'DelayExit', 'NewAlone', 'DeleteAlone', 'RemoveLayer', 'AddSubsetLayer', 'PickerAddData', 'PickerRemoveData',
                                              'AttrAdd', 'AttrRemove', 'AttrReorder', 'SetFilter', 'Select'])
    by_viewer = {}
    for it in items:
        by_viewer[it.get('viewer', 'picker')] = by_viewer.get(it.get('viewer', 'picker'), 0) + 1
    ctx.cov['behaviours_by_viewer'] = by_viewer
    res = core.sharded('harness.adapters.viewer', 'replay_chunk', items, chunk=40)
    ctx.add_replayed(len(items), sum(r['steps'] for r in res), sum(1 for it in items if len(it['steps']) >= 3))
    for r in res:
        for d in r['div']:
            ctx.report(core.Divergence.from_json(d))
    ctx.sample({'viewer': items[7].get('viewer'), 'acts': [s['act'] for s in items[7]['steps']]})
    ctx.cov['exhaustive'] = True
    ctx.cov['rule'] = ('every history of <= 5 collection/viewer operations on the base Viewer, a seed-chosen sample of them and random walks '
                       'on the four matplotlib viewers, every history of <= 4 picker operations; non-trivial = histories of >= 3 steps')
    ctx.assume('layers compared as a set plus agreement of viewer.layers with viewer.state.layers (order included) when no hub delay block '
               'is open; the picker may select any remaining choice when its selection disappears; viewers are saved through a small '
               'harness-side Bundle(application, viewers) because the base Application does not track its viewers')


REPO_TESTS_QUICK = ['glue/viewers/common/tests', 'glue/viewers/scatter/tests/test_viewer.py', 'glue/viewers/image/tests/test_viewer.py',
                    'glue/core/tests/test_application_base.py']
REPO_TESTS_THOROUGH = ['glue/viewers', 'glue/core/tests/test_application_base.py', 'glue/core/tests/test_state.py', 'glue/plugins', 'glue/dialogs']


def _e2(ctx, quick):
    """code -> spec: the viewers of the repository's own tests, recorded by harness/glue_tracer.py, validated by TLC against
    Trace_Viewer.tla (the layer set required after every traced call on the viewer or its collection)"""
    repo = core.use_repo()
    with tlc.Workdir() as wd:
        _, _, traces, tail = hubtrace.record_repo_tests(wd.file('repotests.json'), REPO_TESTS_QUICK if quick else REPO_TESTS_THOROUGH, repo,
                                                        want_collections='viewers')
        if len(traces) < (4 if quick else 60):
            raise core.MachineryFailure('tracer recorded only %d viewer traces from the repository tests:\n%s' % (len(traces), tail))
        accepted, rejected, states, kept = viewertrace.validate(wd, traces)
        ctx.add_traces(kept, accepted)
        ops = {}
        for t in traces:
            for e in t['events']:
                ops[e['ev']] = ops.get(e['ev'], 0) + 1
        ctx.cov['tlc_runs'].append({'label': 'E2 Trace_Viewer.tla', 'traces': kept, 'events_by_kind': ops, 'distinct_states': states,
                                    'rejected': len(rejected), 'viewer_kinds': sorted(set(t['kind'] for t in traces))})
        ctx.cov['states'] += states
        for need in ('ViewerAddData', 'Adopt'):
            if not ops.get(need):
                raise core.MachineryFailure('vacuous trace validation: no %s event recorded' % need)
        for t, eix in rejected:
            ev = t['events']
            e = ev[eix - 1] if eix <= len(ev) else {'ev': 'end'}
            ctx.report(core.Divergence({'trace': t, 'first_unmatched': eix}, eix, 'trace event', 'the layers Viewer.tla requires after %s' % e['ev'],
                                       {k: e.get(k) for k in ('coll', 'groups', 'alone', 'layers', 'slayers', 'delay')}, kind='trace:%s:%s' % (t.get('kind'), e['ev']),
                                       note='recorded %s of the repository tests rejected by Trace_Viewer.tla; events: %s'
                                            % (t.get('kind'), [x['ev'] + ':' + str(x.get('d', '')) + ':' + str(x.get('g', x.get('x', ''))) for x in ev[max(0, eix - 8):eix]])))
        bad, kinds = [], {}
        for t in traces:
            for kind, ev in viewertrace.corruptions(t):
                if kinds.get(kind, 0) < 5:
                    kinds[kind] = kinds.get(kind, 0) + 1
                    bad.append({'events': ev, 'kind': kind})
        need = ['missing_layer', 'duplicate_layer', 'state_disagrees'] + ([] if quick else ['stale_layer', 'no_subset_layer'])
        missing = [k for k in need if k not in kinds]
        if missing:
            raise core.MachineryFailure('binding self-test: no recorded viewer trace exhibits the situation needed for %s' % missing)
        a2, rej2, st2, kept2 = viewertrace.validate(wd, bad, batch=1000)
        if a2 != 0 or len(rej2) != len(bad):
            raise core.MachineryFailure('binding self-test: %d of %d impossible viewer traces were ACCEPTED by Trace_Viewer.tla' % (a2, len(bad)))
        ctx.cov['tlc_runs'].append({'label': 'E2 binding self-test', 'corrupted_traces': len(bad), 'rejected': len(rej2), 'kinds': kinds})


def replay(div):
    if 'trace' in div.behaviour:
        with tlc.Workdir() as wd:
            accepted, rejected, states, kept = viewertrace.validate(wd, [div.behaviour['trace']])
        if not rejected:
            print('replay: trace accepted')
            return 0
        print('VIOLATION property=C18 replay=(given)')
        print('  first unmatched event %d' % rejected[0][1])
        return 1
    from harness.core import use_repo
    use_repo()
    b = div.behaviour
    if b.get('spec') == 'DataPickers':
        from harness.adapters import datapickers
        r = datapickers.replay_one(b)
        if r is None:
            print('replay: behaviour conforms')
            return 0
        print('VIOLATION property=C18 replay=(given)')
        print('  step %s %s: expected %s got %s' % (r[0], r[1], r[2], r[3]))
        return 1
    r = A.replay_layers(b) if b['part'] == 1 else A.replay_picker(b)
    if r is None:
        print('replay: behaviour conforms')
        return 0
    print('VIOLATION property=C18 replay=(given)')
    print('  step %s %s: expected %s got %s' % (r[0], r[1], r[2], r[3]))
    return 1
