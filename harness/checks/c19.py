"""C19 - export/import. Export.tla: for every (table|image, columns, subset, format) TLC computes what must come back
(components in order, rows or preserved pixels) and whether the format can represent it; the registered exporters,
load_data and a session saved by reference are run on real files and compared stage by stage (E1)."""
from harness import tlc, core
from harness.tlaval import parse_state
from harness.adapters import export as A


def run(ctx):
    with tlc.Workdir() as wd:
        res, chunks = tlc.dump_states(wd, 'MC_Export.tla', 'MC_Export.cfg', timeout=3000)
        ctx.add_tlc('E0+generation MC_Export.cfg', res, 'MC_Export.cfg')
    items = []
    seen = set()
    for c in chunks:
        s = parse_state(c)
        if not s['picked']:
            continue
        cfg = {'shape': s['cfg']['shape'], 'cols': list(s['cfg']['cols']), 'sub': s['cfg']['sub'], 'fmt': s['cfg']['fmt'], 'vals': s['cfg']['vals']}
        key = (cfg['shape'], tuple(cfg['cols']), cfg['sub'], cfg['fmt'], cfg['vals'])
        if key in seen:
            continue
        seen.add(key)
        e = s['exp']
        items.append({'cfg': cfg, 'exp': {'ok': e['ok'], 'cols': list(e['cols']), 'rows': list(e['rows']), 'keep': sorted(e['keep']),
                                          'filtered': e['filtered']}})
    ok = [it for it in items if it['exp']['ok']]
    fmts = set(it['cfg']['fmt'] for it in ok)
    if fmts != {'csv', 'fits_table', 'votable', 'hdf5', 'gridded_fits'}:
        raise core.MachineryFailure('vacuous enumeration: formats with a representable configuration: %s' % sorted(fmts))
    res = core.sharded('harness.adapters.export', 'replay_chunk', items)
    ctx.add_replayed(len(items), len(items), sum(1 for it in ok if it['cfg']['sub'] == 'proper'))
    for r in res:
        for d in r['div']:
            ctx.report(core.Divergence.from_json(d))
    ctx.sample(ok[len(ok) // 2])
    ctx.cov['representable_configurations'] = len(ok)
    ctx.cov['exhaustive'] = True
    ctx.cov['rule'] = ('every configuration of the model; non-trivial = representable configurations exporting a proper subset')
    ctx.assume('value alphabets: floats with NaN and a negative value, ints with a negative value, short ASCII text; component names that '
               'every format accepts; gridded FITS names compared case-insensitively; unselected integer pixels may hold any blank value')


def replay(div):
    from harness.core import use_repo
    use_repo()
    from glue.core.data_exporters import setup
    setup()
    r = A.check_one(div.behaviour['cfg'], div.behaviour['exp'])
    if r is None:
        print('replay: configuration conforms')
        return 0
    print('VIOLATION property=C19 replay=(given)')
    print('  %s: expected %s got %s' % (r[0], r[1], r[2]))
    return 1
