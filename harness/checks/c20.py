"""C20 - array helpers. ArrayHelpers.tla: TLC enumerates every pair of positive-step slices over every length in the
bound, every broadcast pattern and every small categorical array and computes the expected results (spec -> code);
Views.tla's result shapes are compared with view_shape; the chunk lists returned by iterate_chunks for every shape and
limit are recorded and validated by TLC against ValidChunks (code -> spec trace validation)."""
import json

from harness import tlc, core
from harness.tlaval import parse_state, to_json
from harness.adapters import arrayhelpers as A


def _cfg(c):
    c = dict(c)
    out = {'kind': c['kind']}
    if c['kind'] == 'combine':
        out.update(n=c['n'], v=dict(c['v']), s=dict(c['s']))
    elif c['kind'] == 'unbcast':
        out.update(shape=list(c['shape']), axes=sorted(c['axes']))
    elif c['kind'] == 'categ':
        out.update(vals=list(c['vals']))
    return out


def _exp(e):
    e = dict(e)
    if e['kind'] == 'combine':
        return {'pos': sorted(e['pos'])}
    if e['kind'] == 'unbcast':
        return {'shape': list(e['shape'])}
    return {'cats': list(e['cats']), 'codes': list(e['codes'])}


def run(ctx):
    quick = ctx.tier == 'quick'
    cfg = 'MC_ArrayHelpers_quick.cfg' if quick else 'MC_ArrayHelpers_thorough.cfg'
    vcfg = 'MC_Views_quick.cfg' if quick else 'MC_Views_thorough.cfg'
    with tlc.Workdir() as wd:
        res, chunks = tlc.dump_states(wd, 'MC_ArrayHelpers.tla', cfg, timeout=3000)
        ctx.add_tlc('E0+generation ' + cfg, res, cfg)
        states = [parse_state(c) for c in chunks]
        items = [{'cfg': _cfg(s['cfg']), 'exp': _exp(s['exp'])} for s in states if s['picked']]
        res, chunks = tlc.dump_states(wd, 'MC_Views.tla', vcfg, timeout=3000)
        ctx.add_tlc('E0+generation ' + vcfg, res, vcfg)
        from harness.checks.c04 import _cfg as vc, _exp as ve
        for k, c in enumerate(chunks):
            s = parse_state(c)
            if s['picked']:
                items.append({'cfg': {'kind': 'view_shape', 'vcfg': vc(s), 'variant': k % 2}, 'exp': ve(s)})
        kinds = {}
        for it in items:
            kinds[it['cfg']['kind']] = kinds.get(it['cfg']['kind'], 0) + 1
        for k in ('combine', 'unbcast', 'categ', 'view_shape'):
            if not kinds.get(k):
                raise core.MachineryFailure('vacuous enumeration: no configuration of kind %s' % k)
        ctx.cov['configurations'] = kinds
        resl = core.sharded('harness.adapters.arrayhelpers', 'replay_chunk', items)
        nontriv = sum(1 for it in items if (it['cfg']['kind'] == 'combine' and it['exp']['pos'])
                      or (it['cfg']['kind'] == 'unbcast' and it['cfg']['axes'])
                      or (it['cfg']['kind'] == 'categ' and len(set(it['cfg']['vals'])) > 1)
                      or (it['cfg']['kind'] == 'view_shape' and it['exp']['src']))
        ctx.add_replayed(len(items), len(items), nontriv)
        for r in resl:
            for d in r['div']:
                ctx.report(core.Divergence.from_json(d))
        ctx.sample(items[len(items) // 7])
        # code -> spec: recorded chunk lists validated by TLC
        recs = A.record_chunks(4 if quick else 5, 3)
        batch = 4000
        accepted = 0
        for lo in range(0, len(recs), batch):
            part = recs[lo:lo + batch]
            path = wd.write('chunks_%d.json' % lo, json.dumps([{'shape': r['shape'], 'limit': r['limit'], 'chunks': r['chunks']}
                                                              for r in part]))
            r = tlc.run_tlc(wd, 'Trace_Chunks.tla', 'Trace_Chunks.cfg', workers=1, timeout=3000, env={'TRACE_FILE': path})
            ctx.cov['states'] += r.distinct
            ctx.cov['transitions'] += r.generated
            if r.violated_invariant == 'AllValid':
                tr = r.error_trace()
                idx = tr[-1][1]['i'] if tr else None
                bad = part[idx - 1] if idx else part[0]
                ctx.report(core.Divergence({'spec': 'Trace_Chunks', 'record': bad}, 0, 'iterate_chunks',
                                           'a partition of the index space into chunks no larger than the limit',
                                           bad['chunks'], kind='iterate_chunks'))
            elif not r.ok:
                raise core.MachineryFailure('Trace_Chunks failed:\n' + r.out[-1500:])
            else:
                accepted += len(part)
        ctx.add_traces(len(recs), accepted)
        # binding self-test: a corrupted record must be rejected by the trace spec
        import copy
        bad = copy.deepcopy([r for r in recs if len(r['chunks']) >= 2][:3])
        bad[1]['chunks'][0][0][1] += 1          # first chunk overlaps the next one / leaves the array
        path = wd.write('chunks_corrupt.json', json.dumps([{'shape': r['shape'], 'limit': r['limit'], 'chunks': r['chunks']}
                                                          for r in bad]))
        r = tlc.run_tlc(wd, 'Trace_Chunks.tla', 'Trace_Chunks.cfg', workers=1, timeout=600, env={'TRACE_FILE': path})
        if r.violated_invariant != 'AllValid':
            raise core.MachineryFailure('trace spec accepted a corrupted chunk record: the binding is vacuous')
        ctx.cov['binding_selftest'] = 'corrupted chunk record rejected by Trace_Chunks (AllValid violated)'
        ctx.cov['chunk_records'] = len(recs)
        ctx.sample({'chunk_record': recs[len(recs) // 2]})
    ctx.cov['exhaustive'] = True
    ctx.cov['rule'] = ('every configuration of the model is one call; non-trivial = non-empty intersection / at least one broadcast '
                       'axis / at least two categories / non-empty view; chunk records: every shape <= 4^3 (5^3 thorough) x every '
                       'n_max and every fitting chunk_shape')
    ctx.assume('slices are normalised (0 <= b,e <= n, step >= 1); for chunk_shape the limit is the product of the chunk shape')


def replay(div):
    from harness.core import use_repo
    use_repo()
    b = div.behaviour
    if b['spec'] == 'ArrayHelpers':
        r = A.check_one(b['cfg'], b['exp'])
        if r is None:
            print('replay: configuration conforms')
            return 0
        print('VIOLATION property=C20 replay=(given)')
        print('  %s: expected %s got %s' % r)
        return 1
    print('replay of chunk records: re-run the check')
    return 1
