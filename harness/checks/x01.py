"""X01 - extra coverage beyond the twenty listed properties: the label registry (Registry.tla). Not in MANIFEST.json:
`./check X01` replays every history of the model into the real glue.core.registry.Registry."""
from harness import tlc, core
from harness.tlaval import to_json


def run(ctx):
    with tlc.Workdir() as wd:
        res, g = tlc.dump_graph(wd, 'MC_Registry.tla', 'GEN_Registry.cfg', timeout=3000)
        ctx.add_tlc('E0+E1 generation GEN_Registry.cfg', res, 'GEN_Registry.cfg')
        items = []
        for p in g.behaviours():
            steps = []
            for n in p[1:]:
                s = g.state(n)
                steps.append({'act': to_json(s['act']), 'st': {'last': to_json(s['last']), 'reg': {str(k): {str(o): to_json(l) for o, l in v.items()} for k, v in s['reg'].items()}}})
            items.append({'steps': steps})
        del g
    ctx.check_ops('GEN_Registry.cfg', items, ['Register', 'Unregister', 'Clear', 'SetDisabled'])
    res = core.sharded('harness.adapters.registry', 'replay_chunk', items)
    ctx.add_replayed(len(items), sum(r['steps'] for r in res), sum(1 for it in items if len(it['steps']) >= 3))
    for r in res:
        for d in r['div']:
            ctx.report(core.Divergence.from_json(d))
    ctx.sample({'acts': [s['act'] for s in items[len(items) // 2]['steps']]})
    ctx.cov['exhaustive'] = True
    ctx.cov['rule'] = 'every history of <= 5 registry calls over 3 objects, 2 groups, 2 base labels'


def replay(div):
    from harness.core import use_repo
    from harness.adapters import registry
    use_repo()
    r = registry.replay_one(div.behaviour)
    if r is None:
        print('replay: behaviour conforms')
        return 0
    print('VIOLATION property=X01 replay=(given)')
    print('  step %s %s: expected %s got %s' % r[:4])
    return 1
