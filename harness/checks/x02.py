"""X02 - extra coverage beyond the twenty listed properties: attribute-dependent limits (LimitsHelper.tla). Not in MANIFEST.json:
`./check X02` replays every history of the model into the real StateAttributeLimitsHelper."""
from harness import tlc, core
from harness.tlaval import to_json


def run(ctx):
    with tlc.Workdir() as wd:
        res, g = tlc.dump_graph(wd, 'MC_LimitsHelper.tla', 'GEN_LimitsHelper.cfg', timeout=3000)
        ctx.add_tlc('E0+E1 generation GEN_LimitsHelper.cfg', res, 'GEN_LimitsHelper.cfg')
        items = [{'steps': [{'act': to_json(g.state(n)['act']), 'cur': to_json(g.state(n)['cur'])} for n in p[1:]]} for p in g.behaviours()]
        del g
    ctx.check_ops('GEN_LimitsHelper.cfg', items, ['SetAttribute', 'SetPercentile', 'SetLog', 'SetLower', 'SetUpper', 'Flip'])
    res = core.sharded('harness.adapters.limitshelper', 'replay_chunk', items)
    ctx.add_replayed(len(items), sum(r['steps'] for r in res), sum(1 for it in items if len(it['steps']) >= 3))
    for r in res:
        for d in r['div']:
            ctx.report(core.Divergence.from_json(d))
    ctx.sample({'acts': [s['act'] for s in items[len(items) // 2]['steps']]})
    ctx.cov['exhaustive'] = True
    ctx.cov['rule'] = 'every history of <= 5 operations on the limits helper'


def replay(div):
    from harness.core import use_repo
    from harness.adapters import limitshelper
    use_repo()
    r = limitshelper.replay_one(div.behaviour)
    if r is None:
        print('replay: behaviour conforms')
        return 0
    print('VIOLATION property=X02 replay=(given)')
    print('  step %s %s: expected %s got %s (%s)' % r)
    return 1
