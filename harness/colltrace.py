"""Validation of recorded DataCollection traces with TLC against Trace_Collection.tla (E2 for C06)."""
import re

from . import tlc, tracecheck
from .hubtrace import tla, _s

MAX_EVENTS = 300


def _norm(e, k):
    """names unique per trace of a batch (D1 of trace 3 is another dataset than D1 of trace 4)"""
    def dn(x):
        return '%s_%d' % (x, k)
    out = {'ev': e['ev']}
    if e['ev'] == 'Broken':
        return out
    out.update(coll=[dn(x) for x in e['coll']], groups=list(e['groups']), subs=[list(x) for x in e['subs']],
               members=[[dn(x) for x in m] for m in e['members']], strays=[[dn(d), g] for d, g in e['strays']],
               delay=int(e['delay']), ngrp=int(e['ngrp']))
    if 'd' in e:
        out['d'] = dn(e['d'])
    if 'g' in e:
        out['g'] = int(e['g'])
    return out


def prepare(traces):
    kept = []
    for t in traces:
        ev = t['events'][:MAX_EVENTS]
        cut = [i for i, e in enumerate(ev) if e['ev'] == 'Broken' or e.get('d') == 'list']
        if cut:
            ev = ev[:cut[0]]
        if ev:
            kept.append(dict(t, events=ev))
    return kept


def gen_module(part):
    names = set()
    rows = []
    for k, t in enumerate(part):
        ev = [_norm(e, k) for e in t['events']]
        for e in ev:
            names.update(e['coll'])
            if 'd' in e:
                names.add(e['d'])
        rows.append(tla(ev))
    return '\n'.join(['---- MODULE Trace_Collection_Gen ----', 'g_CData == {%s}' % ', '.join(_s(n) for n in sorted(names) or ['D']),
                      'g_CTraces == <<\n' + ',\n'.join(rows) + '\n>>', '====', ''])


def validate(wd, traces, batch=150, timeout=1800):
    kept = prepare(traces)
    a, r, st = tracecheck.validate(wd, kept, 'Trace_Collection_Gen.tla', gen_module, 'MC_Trace_Collection.tla', 'Trace_Collection.cfg', batch, timeout)
    return a, r, st, len(kept)


def corruptions(trace):
    """Impossible variants of a recorded trace (binding self-test). Yields (kind, events)."""
    ev = trace['events']
    done = set()
    for i, e in enumerate(ev):
        if e['ev'] == 'Broken' or e.get('delay', 0) != 0:
            continue
        if e['coll'] and e['groups']:
            if 'missing_subset' not in done:
                done.add('missing_subset')
                yield 'missing_subset', ev[:i] + [dict(e, subs=[e['subs'][0][1:]] + e['subs'][1:])] + ev[i + 1:]
            if 'duplicate_subset' not in done:
                done.add('duplicate_subset')
                yield 'duplicate_subset', ev[:i] + [dict(e, subs=[e['subs'][0] + e['subs'][0][:1]] + e['subs'][1:])] + ev[i + 1:]
            if 'group_misses_member' not in done:
                done.add('group_misses_member')
                yield 'group_misses_member', ev[:i] + [dict(e, members=[e['members'][0][1:]] + e['members'][1:])] + ev[i + 1:]
            if 'dead_group_subset' not in done:
                done.add('dead_group_subset')
                yield 'dead_group_subset', ev[:i] + [dict(e, subs=[e['subs'][0] + [0]] + e['subs'][1:])] + ev[i + 1:]
        if e['ev'] == 'Remove' and e['groups'] and 'stray' not in done and e.get('d', 'X') != 'X':
            done.add('stray')
            yield 'stray', ev[:i] + [dict(e, strays=[[e['d'], e['groups'][0]]])] + ev[i + 1:]
        if e['ev'] == 'Append' and 'not_appended' not in done and len(e['coll']) >= 1 and e['d'] in e['coll']:
            done.add('not_appended')
            yield 'not_appended', ev[:i] + [dict(e, coll=[x for x in e['coll'] if x != e['d']],
                                                  subs=[s for x, s in zip(e['coll'], e['subs']) if x != e['d']],
                                                  members=[[x for x in m if x != e['d']] for m in e['members']])] + ev[i + 1:]
        if e['ev'] == 'NewGroup' and 'group_reused' not in done and e['g'] > 1:
            done.add('group_reused')
            yield 'group_reused', ev[:i] + [dict(e, g=e['g'] - 1)] + ev[i + 1:]
