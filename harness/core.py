"""Check context: tiers, seeds, evidence, violations / known findings, sharded replay."""
import hashlib
import importlib
import json
import multiprocessing
import os
import sys
import time
import traceback

ROOT = os.path.dirname(os.path.dirname(os.path.abspath(__file__)))
REPO = os.environ.get('VERIF_REPO', '/repo')
NPROC = int(os.environ.get('VERIF_NPROC', '16'))


def use_repo():
    """Make `import glue` resolve to the tree under test (VERIF_REPO, default /repo)."""
    if sys.path[0] != REPO:
        sys.path.insert(0, REPO)
    os.environ.setdefault('MPLBACKEND', 'Agg')
    return REPO


class MachineryFailure(Exception):
    pass


class Divergence(object):
    """A mismatch between specification and code on one behaviour."""

    def __init__(self, behaviour, step, component, expected, actual, kind=None, note=None):
        self.behaviour = behaviour      # JSON-able description of the behaviour (acts etc.)
        self.step = step                # index of the diverging step
        self.component = component      # which part of the projection differs
        self.expected = expected
        self.actual = actual
        self.kind = kind or component
        self.note = note

    def to_json(self):
        return {'behaviour': self.behaviour, 'step': self.step, 'component': self.component,
                'expected': self.expected, 'actual': self.actual, 'kind': self.kind, 'note': self.note}

    @staticmethod
    def from_json(d):
        return Divergence(d['behaviour'], d['step'], d['component'], d['expected'], d['actual'],
                          d.get('kind'), d.get('note'))


class Context(object):
    def __init__(self, prop, tier, seed):
        self.prop = prop
        self.tier = tier
        self.seed = seed
        self.t0 = time.time()
        self.cov = {'states': 0, 'transitions': 0, 'traces_validated_against_impl': 0, 'samples': [],
                    'behaviours_replayed': 0, 'steps_compared': 0, 'traces_recorded': 0,
                    'traces_accepted': 0, 'tlc_runs': [], 'exhaustive': False,
                    'distinct_nontrivial': 0, 'evaluations': 0, 'action_coverage': {}}
        self.assumptions = []
        self.violations = []          # Divergence not attributed to a known finding
        self.known_hits = {}          # finding id -> count
        self.findings = load_findings(prop)
        self.notes = []

    # -- evidence ---------------------------------------------------------------------------
    def add_tlc(self, label, res, cfg=None):
        self.cov['states'] += res.distinct
        self.cov['transitions'] += res.generated
        self.cov['tlc_runs'].append({'label': label, 'cfg': cfg, 'distinct_states': res.distinct,
                                     'states_generated': res.generated, 'depth': res.depth,
                                     'wall_s': round(res.wall, 2)})
        for k, v in res.coverage.items():
            c = self.cov['action_coverage'].setdefault(label, {})
            c[k] = v[0]

    def add_replayed(self, behaviours, steps, nontrivial=None):
        self.cov['behaviours_replayed'] += behaviours
        self.cov['steps_compared'] += steps
        self.cov['traces_validated_against_impl'] += behaviours
        self.cov['evaluations'] += behaviours
        if nontrivial is not None:
            self.cov['distinct_nontrivial'] += nontrivial

    def add_traces(self, recorded, accepted):
        self.cov['traces_recorded'] += recorded
        self.cov['traces_accepted'] += accepted
        self.cov['traces_validated_against_impl'] += accepted
        self.cov['evaluations'] += recorded

    def sample(self, s):
        if len(self.cov['samples']) < 6:
            self.cov['samples'].append(s)

    def assume(self, text):
        if text not in self.assumptions:
            self.assumptions.append(text)

    def check_vacuity(self, label, res, required_actions):
        missing = [a for a in required_actions if res.coverage.get(a, (0, 0))[0] == 0]
        if missing:
            raise MachineryFailure('vacuous run %s: actions never taken: %s' % (label, missing))

    def check_ops(self, label, items, required, get=lambda stp: stp['act']['op']):
        """Vacuity guard on the replayed behaviours themselves: every required operation occurs."""
        counts = {}
        for it in items:
            for stp in (it['steps'] if 'steps' in it else it['plan']):
                k = get(stp)
                counts[k] = counts.get(k, 0) + 1
        self.cov['action_coverage'][label + ' (replayed steps)'] = counts
        missing = [a for a in required if not counts.get(a)]
        if missing:
            raise MachineryFailure('vacuous generation %s: operations never replayed: %s' % (label, missing))

    # -- verdicts ---------------------------------------------------------------------------
    def report(self, div):
        """Attribute a divergence to an open known finding or record it as a violation."""
        from . import findings as F
        for kf in self.findings:
            if not kf.get('status', 'open').startswith('open'):
                continue
            pred = getattr(F, kf['predicate'], None)
            if pred is None:
                raise MachineryFailure('known finding %s names unknown predicate %s' % (kf['id'], kf['predicate']))
            try:
                hit = pred(div)
            except Exception:
                hit = False
            if hit:
                self.known_hits[kf['id']] = self.known_hits.get(kf['id'], 0) + 1
                return kf['id']
        self.violations.append(div)
        return None

    def finish(self):
        wall = time.time() - self.t0
        cov = self.cov
        if not cov['samples']:
            cov['samples'].append('no sample recorded')
        cov['known_findings_hit'] = dict(self.known_hits)
        ev = {'property_id': self.prop, 'tier': self.tier, 'seed': self.seed, 'level': 'model_checking',
              'coverage': cov, 'assumptions': self.assumptions, 'wall_s': round(wall, 2),
              'violations': len(self.violations), 'notes': self.notes}
        os.makedirs(os.path.join(ROOT, 'evidence'), exist_ok=True)
        with open(os.path.join(ROOT, 'evidence', self.prop + '.json'), 'w') as f:
            json.dump(ev, f, indent=1, sort_keys=True, default=str)
        for kf in self.findings:
            if kf.get('status', 'open').startswith('open') and self.known_hits.get(kf['id']):
                print('KNOWN-FINDING: property=%s %s [%s, %d behaviours]' % (
                    self.prop, kf['what_fails'], kf['id'], self.known_hits[kf['id']]))
        for kf in self.findings:
            if kf.get('status', 'open').startswith('open') and not self.known_hits.get(kf['id']) \
                    and kf.get('must_reproduce', True) and self.tier in kf.get('tiers', ['quick', 'thorough']):
                print('NOTE: open known finding %s did not reproduce in this run' % kf['id'])
        if self.violations:
            seen = set()
            for d in self.violations:
                key = (d.kind, d.component)
                if key in seen and len(seen) >= 1:
                    continue
                seen.add(key)
                path = write_replay(self.prop, d)
                print('VIOLATION property=%s replay=%s' % (self.prop, path))
                print('  step %s component %s: expected %s, got %s%s' % (
                    d.step, d.component, _short(d.expected), _short(d.actual),
                    (' (' + d.note + ')') if d.note else ''))
                if len(seen) >= 5:
                    break
            return 1
        return 0


def _short(x, n=300):
    s = json.dumps(x, default=str, sort_keys=True)
    return s if len(s) <= n else s[:n] + '...'


def write_replay(prop, div):
    d = div.to_json()
    blob = json.dumps(d, sort_keys=True, default=str)
    sha = hashlib.sha1(blob.encode()).hexdigest()[:12]
    dirn = os.path.join(ROOT, 'replays', prop)
    os.makedirs(dirn, exist_ok=True)
    path = os.path.join(dirn, sha + '.json')
    with open(path, 'w') as f:
        f.write(json.dumps(d, indent=1, sort_keys=True, default=str))
    return path


def load_findings(prop):
    path = os.path.join(ROOT, 'known_findings.json')
    if not os.path.exists(path):
        return []
    with open(path) as f:
        data = json.load(f)
    return [k for k in data.get('findings', []) if k['property'] == prop]


# ------------------------------------------------------------------------------------------------
# sharded replay

_WORK = {}


def _worker(args):
    modname, fn, lo, hi, extra = args
    use_repo()
    try:
        mod = importlib.import_module(modname)
        f = getattr(mod, fn)
        items = _WORK['items'][lo:hi]
        return ('ok', f(items, extra))
    except Exception:
        return ('err', traceback.format_exc())


def _one(task, path):
    with open(path, 'w') as f:
        json.dump(_worker(task), f)


def _child(k, nproc, tasks, outpath):
    """worker process k: runs the tasks k, k + nproc, ... - each in a short-lived process of its own, so that whatever the
    replayed library keeps alive (memo caches, matplotlib figures) is returned to the system after every chunk - and writes
    their results to its own file"""
    out = []
    ctx = multiprocessing.get_context('fork')
    for j, t in enumerate(tasks[k::nproc]):
        if j == 0:
            out.append(_worker(t))       # in this process: everything the replay imports is then inherited by the forks below
            continue
        path = '%s.%d' % (outpath, j)
        pr = ctx.Process(target=_one, args=(t, path))
        pr.start()
        pr.join()
        if pr.exitcode != 0:
            os._exit(3)
        with open(path) as f:
            out.append(json.load(f))
        os.remove(path)
    with open(outpath, 'w') as f:
        json.dump(out, f)


def sharded(modname, fn, items, extra=None, nproc=None, chunk=None):
    """Run mod.fn(items_chunk, extra) over chunks of items in forked workers.
    fn returns a JSON-able result per chunk; returns the list of chunk results (in task order).

    The workers are plain forked processes with a static share of the tasks and one result file each - no queues, no pool
    management threads: a worker that dies (e.g. killed for lack of memory) is seen by its exit code, the others are
    terminated and the run fails as a machinery failure. (multiprocessing.Pool waited for ever in that situation, and
    concurrent.futures.ProcessPoolExecutor hung while cleaning up.)"""
    nproc = nproc or NPROC
    n = len(items)
    if n == 0:
        return []
    if chunk is None:
        chunk = max(1, min(2000, (n + nproc * 4 - 1) // (nproc * 4)))
    _WORK['items'] = items
    tasks = [(modname, fn, lo, min(n, lo + chunk), extra) for lo in range(0, n, chunk)]
    if nproc == 1 or len(tasks) == 1:
        results = [_worker(t) for t in tasks]
    else:
        import gc
        import tempfile
        import shutil
        nproc = min(nproc, len(tasks))
        ctx = multiprocessing.get_context('fork')
        tmp = tempfile.mkdtemp(prefix='verif-shard-')
        gc.collect()
        gc.freeze()          # what the parent holds (parsed state graphs, the items) stays shared with the forked workers
        procs = []
        try:
            for k in range(nproc):
                pr = ctx.Process(target=_child, args=(k, nproc, tasks, os.path.join(tmp, '%d.json' % k)))
                pr.start()
                procs.append(pr)
            pending = set(range(nproc))
            while pending:
                for k in sorted(pending):
                    procs[k].join(timeout=0.2)
                    if procs[k].exitcode is None:
                        continue
                    if procs[k].exitcode != 0:
                        raise MachineryFailure('replay worker %d died with exit code %s (killed for lack of memory?)' % (k, procs[k].exitcode))
                    pending.discard(k)
            per = []
            for k in range(nproc):
                with open(os.path.join(tmp, '%d.json' % k)) as f:
                    per.append(json.load(f))
            results = [None] * len(tasks)
            for k in range(nproc):
                for j, r in enumerate(per[k]):
                    results[k + j * nproc] = r
        finally:
            for pr in procs:
                if pr.exitcode is None:
                    pr.terminate()
            for pr in procs:
                pr.join(timeout=5)
            gc.unfreeze()
            shutil.rmtree(tmp, ignore_errors=True)
    out = []
    for st, r in results:
        if st == 'err':
            raise MachineryFailure('replay worker crashed:\n' + r)
        out.append(r)
    return out
