"""Predicates of open known findings. Each takes a core.Divergence and says whether that divergence
is the recorded finding (same failing history/input AND same kind of divergence)."""
