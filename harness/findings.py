"""Predicates of open known findings. Each takes a core.Divergence and says whether that divergence
is the recorded finding (same failing history/input AND same kind of divergence)."""


def _cfg(div):
    b = div.behaviour
    return b.get('cfg') or {}


def KF_C04_world_empty_view(div):
    """World-coordinate attributes (and selections on them) requested under a view that selects nothing
    (an empty slice somewhere), on datasets with >= 2 dimensions: IndexError instead of an empty array."""
    b = div.behaviour
    if b.get('spec') != 'Views':
        return False
    comp = div.component
    if not (comp.startswith('values[world') or comp == 'mask[ineq_gt_world]'):
        return False
    return (len(b['cfg']['shape']) >= 2 and b['exp']['src'] == [] and isinstance(div.actual, str)
            and div.actual.startswith('raised IndexError'))


def KF_C04_scalar_view_selections(div):
    """All-integer views (scalar result) of selections built on categorical attributes or projected 3-d regions:
    CategoricalROISubsetState / CategoricalROISubsetState2D / CategoricalMultiRangeSubsetState raise,
    CategorySubsetState returns False for a selected element."""
    b = div.behaviour
    if b.get('spec') != 'Views':
        return False
    if b['exp']['rshape'] != [] or b['cfg']['kind'] != 'tuple':
        return False
    return div.component in ('mask[catroi]', 'mask[catmultirange]', 'mask[catroi2d]', 'mask[category]')


def _memo_ops(div):
    b = div.behaviour
    if b.get('spec') != 'Memo':
        return None
    return [s['act'] for s in b['steps'][:div.step + 1]]


def KF_C05_inplace_edit_after_evaluation(div):
    """A selection (or a leaf inside a composite selection) is edited in place - move_to, ROI edits, attribute
    setters - after the selection was evaluated: the memoised mask (keyed by object identity) is returned again."""
    ops = _memo_ops(div)
    if ops is None or div.kind != 'stale':
        return False
    seen_eval = False
    for a in ops[:-1]:
        if a['op'] == 'Evaluate':
            seen_eval = True
        elif a['op'] == 'MutateLeaf' and seen_eval:
            return True
    return False


def KF_C05_floodfill_after_value_change(div):
    """FloodFillSubsetState keeps the mask computed at construction when the dataset's values are replaced."""
    ops = _memo_ops(div)
    if ops is None or div.kind != 'stale':
        return False
    kinds = div.behaviour['kinds']
    tree = ops[0]['a']
    used = [kinds['A']] + ([kinds['B']] if 'B' in tree else [])
    return 'flood' in used and any(a['op'] in ('UpdateComponents', 'UpdateFromData') for a in ops[:-1])


KF_C12_CAPTURED = ('glue.viewers.histogram.layer_artist.HistogramLayerArtist', 'glue.viewers.profile.layer_artist.ProfileLayerArtist',
                   'glue.dialogs.link_editor.state.EditableLinkFunctionState', 'glue.dialogs.link_editor.state.LinkEditorState')


def KF_C12_patch_captures_live_classes(div):
    """state_path_patches.txt redirects four class paths that this package still defines as concrete, serialisable classes."""
    return div.kind == 'patch_capture' and div.behaviour.get('key') in KF_C12_CAPTURED


def KF_C19_empty_fits_table(div):
    """An empty subset exported as a FITS table loads back as a dataset without components."""
    b = div.behaviour
    return (b.get('spec') == 'Export' and b['cfg']['fmt'] == 'fits_table' and b['cfg']['sub'] == 'empty'
            and div.component == 'components' and div.actual == [])


def KF_C18_histogram_profile_viewer_restore(div):
    """Saved histogram / profile viewers cannot be restored: their layer artist paths are redirected to glue_qt (see KF-C12-1)."""
    b = div.behaviour
    return (b.get('spec') == 'Viewer' and b.get('viewer') in ('histogram', 'profile') and div.component == 'exception[SaveRestoreViewer]'
            and isinstance(div.actual, str) and "Module 'glue_qt." in div.actual)


def KF_C02_joinlink_then_join_on_key(div):
    """A JoinLink helper and a later join_on_key between the same two datasets: the restore brings the helper's join back."""
    b = div.behaviour
    if b.get('spec') != 'Session':
        return False
    ops = [(s['act']['op'], s['act'].get('s')) for s in b['steps'][:div.step + 1]]
    if ('AddLink', 'JoinLink') not in ops:
        return False
    k = ops.index(('AddLink', 'JoinLink'))
    if not any(op == 'AddJoin' for op, _ in ops[k + 1:]):
        return False
    # only what the replaced join explains: masks of groups and values read through links/joins - never styles, units, ...
    c = div.component
    return (c.startswith('restored/groups/') and '/masks/' in c) or (c.startswith('restored/data/') and '/linked/' in c)
