"""Predicates of open known findings. Each takes a core.Divergence and says whether that divergence
is the recorded finding (same failing history/input AND same kind of divergence)."""


def _cfg(div):
    b = div.behaviour
    return b.get('cfg') or {}


def KF_C04_world_empty_view(div):
    """World-coordinate attributes (and selections on them) requested under a view that selects nothing
    (an empty slice somewhere), on datasets with >= 2 dimensions: IndexError instead of an empty array."""
    b = div.behaviour
    if b.get('spec') != 'Views':
        return False
    comp = div.component
    if not (comp.startswith('values[world') or comp == 'mask[ineq_gt_world]'):
        return False
    return (len(b['cfg']['shape']) >= 2 and b['exp']['src'] == [] and isinstance(div.actual, str)
            and div.actual.startswith('raised IndexError'))


def KF_C04_scalar_view_selections(div):
    """All-integer views (scalar result) of selections built on categorical attributes or projected 3-d regions:
    CategoricalROISubsetState / CategoricalROISubsetState2D / CategoricalMultiRangeSubsetState / RoiSubsetState3d raise,
    CategorySubsetState returns False for a selected element."""
    b = div.behaviour
    if b.get('spec') != 'Views':
        return False
    if b['exp']['rshape'] != [] or b['cfg']['kind'] != 'tuple':
        return False
    return div.component in ('mask[catroi]', 'mask[roi3d]', 'mask[catmultirange]', 'mask[catroi2d]', 'mask[category]')
