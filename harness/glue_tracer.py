"""External tracer for glue.core.hub.Hub (guard: GLUE_VERIF_TRACE=1).

Nothing in /repo is modified: `install()` wraps Hub methods from outside. Every Hub instance gets its own event
list; events are appended after the state change they describe, in program order (the library is single-threaded).
Listeners are numbered per hub; strong references to listeners and handlers are kept so that garbage collection
cannot silently change the set of subscribers while a trace is being recorded."""
import json
import os
import weakref

TRACES = []          # _HubTrace objects, in order of creation
_BY_HUB = weakref.WeakKeyDictionary()
_installed = False


class _HubTrace(object):
    def __init__(self):
        self.events = []
        self.listeners = {}      # id(obj) -> name
        self.keep = []
        self.msgs = {}           # id(message) -> number
        self.nmsg = 0
        self.classes = {}
        self.aborted = False
        self.unsupported = False  # a message class with two Message bases (the spec's class tree is single-inheritance)
        self.pending_evals = None
        self.hdepth = 0           # handlers currently executing
        self.qnums = []           # message numbers parallel to hub._queue
        self.flushes = []         # stack of [handler depth, [(message object, number), ...]] for flushes in progress

    def lname(self, obj):
        k = id(obj)
        if k not in self.listeners:
            self.listeners[k] = 'L%d' % (len(self.listeners) + 1)
            self.keep.append(obj)
        return self.listeners[k]

    def cname(self, cls):
        from glue.core.message import Message
        name = cls.__module__.split('.')[-1] + '.' + cls.__name__ + ('' if cls.__module__.startswith('glue.') else '@%x' % (id(cls) & 0xffff))
        if name not in self.classes:
            parent = 'none'
            if cls is not Message:
                if sum(1 for b in cls.__bases__ if isinstance(b, type) and issubclass(b, Message)) > 1:
                    self.unsupported = True
                bases = [b for b in cls.__mro__[1:] if isinstance(b, type) and issubclass(b, Message)]
                parent = self.cname(bases[0]) if bases else 'none'
            self.classes[name] = parent
            self.keep.append(cls)
        return name

    def emit(self, **ev):
        if not self.aborted:
            self.events.append(ev)


def install():
    global _installed
    if _installed:
        return
    _installed = True
    from contextlib import contextmanager
    from glue.core import hub as H
    Hub = H.Hub
    o_init, o_sub, o_unsub, o_unsub_all = Hub.__init__, Hub.subscribe, Hub.unsubscribe, Hub.unsubscribe_all
    o_bcast, o_delay, o_ignore = Hub.broadcast, Hub.delay_callbacks, Hub.ignore_callbacks
    o_findh = Hub._find_handlers

    def tr(self):
        t = _BY_HUB.get(self)
        if t is None:
            t = _HubTrace()
            _BY_HUB[self] = t
            TRACES.append(t)
            try:
                # a hub first seen with subscriptions already in place (unpickled, ...): its history is unknown
                if len(self.__dict__.get('_subscriptions', ())) > 0:
                    t.unsupported = True
            except Exception:
                t.unsupported = True
        return t

    def init(self, *args):
        tr(self)
        o_init(self, *args)

    def subscribe(self, subscriber, message_class, handler=None, filter=lambda x: True, priority=10):
        t = tr(self)
        if not isinstance(subscriber, H.HubListener) or not isinstance(message_class, type) or not issubclass(message_class, H.Message):
            return o_sub(self, subscriber, message_class, handler=handler, filter=filter, priority=priority)
        l, c = t.lname(subscriber), t.cname(message_class)
        real_handler = handler or subscriber.notify
        t.keep.append(real_handler)

        def w_handler(msg, _l=l, _c=c, _h=real_handler):
            m = t.msgs.get(id(msg))
            t.emit(ev='Deliver', l=_l, c=_c, m=m)
            ok = False
            t.hdepth += 1
            try:
                r = _h(msg)
                ok = True
                return r
            finally:
                t.hdepth -= 1
                if ok:
                    t.emit(ev='Return', l=_l, m=m)
                else:
                    t.aborted = True          # exceptions raised by handlers are outside the statement

        def w_filter(msg, _l=l, _c=c, _f=filter):
            r = bool(_f(msg))
            if t.pending_evals is not None:
                t.pending_evals.append({'l': _l, 'c': _c, 'r': r})
            return r
        o_sub(self, subscriber, message_class, handler=w_handler, filter=w_filter, priority=priority)
        try:
            p = int(priority)
        except Exception:
            p = 10
        t.emit(ev='Subscribe', l=l, c=c, p=p)

    def unsubscribe(self, subscriber, message):
        t = tr(self)
        o_unsub(self, subscriber, message)
        if isinstance(message, type):
            t.emit(ev='Unsubscribe', l=t.lname(subscriber), c=t.cname(message))

    def unsubscribe_all(self, subscriber):
        t = tr(self)
        o_unsub_all(self, subscriber)
        t.emit(ev='UnsubscribeAll', l=t.lname(subscriber))

    def broadcast(self, message):
        t = tr(self)
        flush = bool(t.flushes) and t.flushes[-1][0] == t.hdepth and bool(t.flushes[-1][1]) and t.flushes[-1][1][0][0] is message
        if flush:
            m = t.flushes[-1][1].pop(0)[1]
        else:
            t.nmsg += 1
            m = t.nmsg
            t.keep.append(message)
        t.msgs[id(message)] = m
        c = t.cname(type(message))
        if self._ignore.get(type(message), 0) > 0:
            fate = 'dropped'
        elif self._paused:
            fate = 'queued'
        else:
            fate = 'deliver'
        if fate == 'queued':
            t.qnums.append(m)
        if fate != 'deliver':
            t.emit(ev='FlushItem' if flush else 'Broadcast', m=m, c=c, fate=fate, evals=[])
            return o_bcast(self, message)
        # the real hub evaluates the filters when it builds the list of handlers: record them, then emit the event
        # BEFORE any handler runs (the generator computes the whole list before yielding the first pair)
        o_find = lambda msg: o_findh(self, msg)
        prev = self.__dict__.get('_find_handlers')

        def find(msg, _o=o_find):
            t.pending_evals = []
            pairs = list(_o(msg))
            evals, t.pending_evals = t.pending_evals, None
            t.emit(ev='FlushItem' if flush else 'Broadcast', m=m, c=c, fate='deliver', evals=evals)
            for pair in pairs:
                yield pair
        self.__dict__['_find_handlers'] = find
        try:
            return o_bcast(self, message)
        finally:
            if prev is None:
                self.__dict__.pop('_find_handlers', None)
            else:
                self.__dict__['_find_handlers'] = prev

    @contextmanager
    def delay_callbacks(self):
        t = tr(self)
        cm = o_delay(self)
        cm.__enter__()
        t.emit(ev='DelayEnter')
        exc = False
        try:
            yield
        except BaseException:
            exc = True
            raise
        finally:
            # the event is emitted BEFORE the exit runs: the flush happens inside it (FlushItem events follow)
            t.emit(ev='DelayExit', exc=exc)
            import sys
            releasing = self._delay_depth == 1
            if releasing:
                t.flushes.append([t.hdepth, list(zip(list(self._queue), t.qnums))])
                t.qnums = []
            try:
                cm.__exit__(*(sys.exc_info() if exc else (None, None, None)))
            finally:
                if releasing:
                    t.flushes.pop()

    @contextmanager
    def ignore_callbacks(self, ignore_type):
        t = tr(self)
        cm = o_ignore(self, ignore_type)
        cm.__enter__()
        t.emit(ev='IgnoreEnter', c=t.cname(ignore_type))
        try:
            yield
        finally:
            cm.__exit__(None, None, None)
            t.emit(ev='IgnoreExit', c=t.cname(ignore_type))

    Hub.__init__ = init
    Hub.subscribe = subscribe
    Hub.unsubscribe = unsubscribe
    Hub.unsubscribe_all = unsubscribe_all
    Hub.broadcast = broadcast
    Hub.delay_callbacks = delay_callbacks
    Hub.ignore_callbacks = ignore_callbacks


def dump(path):
    out = []
    for t in TRACES:
        if t.events and not t.unsupported:
            out.append({'events': t.events, 'classes': t.classes, 'aborted': t.aborted, 'listeners': len(t.listeners)})
    with open(path, 'w') as f:
        json.dump(out, f)
    return len(out)


if os.environ.get('GLUE_VERIF_TRACE') == '1' and os.environ.get('GLUE_VERIF_TRACE_AUTOINSTALL') == '1':
    install()


# ------------------------------------------------------------------------------------------------
# DataCollection membership traces (E2 for C06): one trace per DataCollection object; every event carries the
# projected state AFTER the call (collection order, live groups, per dataset the groups of its grouped subsets, per group
# the datasets of its subsets, grouped subsets of live groups still carried by datasets that left the collection).

CTRACES = []
_BY_DC = weakref.WeakKeyDictionary()
_GROUP_OWNER = weakref.WeakKeyDictionary()      # SubsetGroup -> _CollTrace that saw it in its collection


class _CollTrace(object):
    def __init__(self):
        self.events = []
        self.dnames = {}        # id(data) -> name
        self.gids = {}          # id(group) -> number
        self.keep = []
        self.gone = []          # datasets seen earlier (strong references: identity must stay unambiguous)
        self.ngrp = 0
        self.last = None
        self.depth = 0

    def dname(self, d):
        k = id(d)
        if k not in self.dnames:
            self.dnames[k] = 'D%d' % (len(self.dnames) + 1)
            self.keep.append(d)
        return self.dnames[k]

    def gid(self, g, adopt=True):
        k = id(g)
        if k not in self.gids:
            if not adopt:
                return None
            self.ngrp += 1
            self.gids[k] = self.ngrp
            self.keep.append(g)
            _GROUP_OWNER[g] = self
        return self.gids[k]

    def project(self, dc):
        from glue.core.subset_group import GroupedSubset
        coll = [self.dname(d) for d in dc._data]
        groups = [self.gid(g) for g in dc._subset_groups]
        live = set(groups)

        def groups_of(d):
            out = []
            for s in d.subsets:
                if isinstance(s, GroupedSubset):
                    # groups that no traced collection ever listed (a dataset brought along from elsewhere) and groups of
                    # other collections cannot be attributed to this collection: not its membership
                    if _GROUP_OWNER.get(s.group) is self:
                        out.append(self.gid(s.group, adopt=False) or 0)
            return out
        subs = [groups_of(d) for d in dc._data]
        members = [[self.dnames.get(id(s.data), 'X') for s in g.subsets] for g in dc._subset_groups]
        strays = []
        present = set(id(d) for d in dc._data)
        for d in self.keep:
            if id(d) in self.dnames and id(d) not in present and hasattr(d, 'subsets'):
                strays += [[self.dnames[id(d)], n] for n in groups_of(d) if n in live]
        hub = dc.hub
        delay = int(getattr(hub, '_delay_depth', 0) or 0) if hub is not None else 0
        return {'coll': coll, 'groups': groups, 'subs': subs, 'members': members, 'strays': strays, 'delay': delay, 'ngrp': self.ngrp}


def install_collection():
    from glue.core.data_collection import DataCollection
    from glue.core import state as S
    if getattr(DataCollection, '_verif_traced', False):
        return
    DataCollection._verif_traced = True
    o_append, o_remove = DataCollection.append, DataCollection.remove
    o_new, o_rm = DataCollection.new_subset_group, DataCollection.remove_subset_group
    o_object = S.GlueUnSerializer.object

    def tr(dc):
        t = _BY_DC.get(dc)
        if t is None:
            t = _CollTrace()
            _BY_DC[dc] = t
            CTRACES.append(t)
        return t

    def key(st):
        return (tuple(st['coll']), tuple(st['groups']))

    def emit(t, dc, ev, **kw):
        st = t.project(dc)
        t.last = key(st)
        t.events.append(dict(st, ev=ev, **kw))

    def sync(t, dc):
        """something changed the collection without going through the traced calls (session loaders assign the private
        lists, tests poke them): adopt what is there"""
        st = t.project(dc)
        if t.last is not None and key(st) != t.last or t.last is None and (st['coll'] or st['groups']):
            t.last = key(st)
            t.events.append(dict(st, ev='Adopt'))

    def wrap(orig, evname, arg_of):
        def f(self, *a, **k):
            t = tr(self)
            if t.depth > 0 or not hasattr(self, '_data') or not hasattr(self, '_subset_groups'):
                return orig(self, *a, **k)
            sync(t, self)
            t.depth += 1
            ok = False
            try:
                r = orig(self, *a, **k)
                ok = True
                return r
            finally:
                t.depth -= 1
                if ok:
                    try:
                        emit(t, self, evname, **arg_of(t, self, a, k, r))
                    except Exception:
                        t.events.append({'ev': 'Broken'})
        return f

    def a_append(t, dc, a, k, r):
        d = a[0] if a else k.get('data')
        if isinstance(d, list):
            return {'d': 'list'}
        return {'d': t.dname(d)}

    def a_remove(t, dc, a, k, r):
        d = a[0] if a else k.get('data')
        return {'d': t.dnames.get(id(d), 'X')}

    def a_new(t, dc, a, k, r):
        return {'g': t.gid(r)}

    def a_rm(t, dc, a, k, r):
        g = a[0] if a else k.get('subset_grp')
        return {'g': t.gids.get(id(g), 0)}

    def w_append(self, data):
        if isinstance(data, list):          # append(list) is extend: the elements are traced one by one
            return o_append(self, data)
        return wrap(o_append, 'Append', a_append)(self, data)
    DataCollection.append = w_append
    DataCollection.remove = wrap(o_remove, 'Remove', a_remove)
    DataCollection.new_subset_group = wrap(o_new, 'NewGroup', a_new)
    DataCollection.remove_subset_group = wrap(o_rm, 'RemoveGroup', a_rm)

    depth = [0]

    def w_object(self, obj_id):
        depth[0] += 1
        try:
            r = o_object(self, obj_id)
        finally:
            depth[0] -= 1
        if depth[0] == 0:
            for c in (r, getattr(r, 'data_collection', None), getattr(getattr(r, 'app', None), 'data_collection', None)):
                if isinstance(c, DataCollection):
                    t = tr(c)
                    try:
                        sync(t, c)
                        emit(t, c, 'Observe')
                    except Exception:
                        pass
        return r
    S.GlueUnSerializer.object = w_object


def dump_collections(path):
    out = [{'events': t.events} for t in CTRACES if t.events]
    with open(path, 'w') as f:
        json.dump(out, f)
    return len(out)


# ------------------------------------------------------------------------------------------------
# Viewer layer traces (E2 for C18): one trace per Viewer object. The trace holds the events of the viewer's collection
# (append/remove dataset, new/removed group, stand-alone subsets created/deleted) from the creation of the viewer on, and the
# calls made on the viewer; every event carries the viewer's layers projected AFTER the call.

VTRACES = []
_BY_VIEWER = weakref.WeakKeyDictionary()
_VIEWERS_OF = weakref.WeakKeyDictionary()       # DataCollection -> list of weakrefs to viewers
_DATA_OWNER = weakref.WeakKeyDictionary()       # Data -> DataCollection (last one that listed it)


class _ViewerTrace(object):
    def __init__(self, kind):
        self.kind = kind
        self.events = []
        self.depth = 0
        self.last = None
        self.last_delay = 0
        self.closed = False
        self.alone = {}          # id(subset) -> number >= 9
        self.keep = []


def install_viewers():
    from glue.viewers.common.viewer import Viewer
    from glue.core.data_collection import DataCollection
    from glue.core.data import BaseData, Data
    from glue.core.subset import Subset
    from glue.core.subset_group import GroupedSubset
    if getattr(Viewer, '_verif_traced', False):
        return
    Viewer._verif_traced = True
    install_collection()

    def ctrace(dc):
        t = _BY_DC.get(dc)
        if t is None:
            t = _CollTrace()
            _BY_DC[dc] = t
            CTRACES.append(t)
        return t

    def akey(vt, s):
        k = id(s)
        if k not in vt.alone:
            vt.alone[k] = 9 + len(vt.alone)
            vt.keep.append(s)
        return vt.alone[k]

    def lkey(vt, ct, layer):
        if isinstance(layer, BaseData):
            return [ct.dname(layer), 0]
        d = ct.dname(layer.data)
        if isinstance(layer, GroupedSubset):
            n = ct.gid(layer.group, adopt=False)
            return [d, n if n is not None else 8000]
        return [d, akey(vt, layer)]

    def project(v, vt):
        dc = v.session.data_collection
        ct = ctrace(dc)
        st = ct.project(dc)
        layers = [lkey(vt, ct, la.layer) for la in v._layer_artist_container]
        slayers = [lkey(vt, ct, ls.layer) for ls in v.state.layers]
        alone = []
        for d in dc._data:
            for s in d.subsets:
                if not isinstance(s, GroupedSubset):
                    alone.append([ct.dname(d), akey(vt, s)])
        hub = dc.hub
        return {'coll': st['coll'], 'groups': st['groups'], 'alone': alone, 'layers': layers, 'slayers': slayers,
                'delay': st['delay'], 'registered': bool(getattr(v, '_hub', None) is hub and hub is not None)}

    def emit(v, vt, ev, **kw):
        if vt.closed:
            return
        try:
            st = project(v, vt)
        except Exception:
            vt.closed = True
            return
        vt.last = sorted(map(tuple, st['layers']))
        vt.last_delay = st['delay']
        vt.events.append(dict(st, ev=ev, **kw))

    def presync(v, vt):
        """layers changed between two traced calls although no delay block was open (the test edited state.layers, ...)"""
        if vt.closed or vt.last is None:
            return
        try:
            st = project(v, vt)
        except Exception:
            vt.closed = True
            return
        if st['delay'] == 0 and vt.last_delay == 0 and sorted(map(tuple, st['layers'])) != vt.last:
            vt.last = sorted(map(tuple, st['layers']))
            vt.events.append(dict(st, ev='Adopt'))

    def viewers_of(dc):
        out = []
        for r in _VIEWERS_OF.get(dc, []):
            v = r()
            if v is not None:
                out.append(v)
        return out

    o_init = Viewer.__init__

    def v_init(self, session, state=None):
        o_init(self, session, state=state)
        try:
            dc = session.data_collection
            vt = _ViewerTrace(type(self).__name__)
            _BY_VIEWER[self] = vt
            VTRACES.append(vt)
            _VIEWERS_OF.setdefault(dc, []).append(weakref.ref(self))
            emit(self, vt, 'Adopt')
        except Exception:
            pass
    Viewer.__init__ = v_init

    def vwrap(name, evname, arg_of):
        orig = getattr(Viewer, name)

        def f(self, *a, **k):
            vt = _BY_VIEWER.get(self)
            if vt is None or vt.depth > 0 or vt.closed:
                return orig(self, *a, **k)
            presync(self, vt)
            vt.depth += 1
            ok = False
            try:
                r = orig(self, *a, **k)
                ok = True
                return r
            finally:
                vt.depth -= 1
                if ok:
                    try:
                        ct = ctrace(self.session.data_collection)
                        emit(self, vt, evname, **arg_of(self, vt, ct, a, k, r))
                    except Exception:
                        vt.closed = True
                else:
                    vt.closed = True
        setattr(Viewer, name, f)

    def a_data(v, vt, ct, a, k, r):
        d = a[0] if a else k.get('data')
        return {'d': ct.dname(d), 'ok': r is not False and r is not None or evname_is_remove(a, k, r)}

    def evname_is_remove(a, k, r):
        return r is None

    def a_layer(v, vt, ct, a, k, r):
        layer = a[0] if a else (k.get('subset') or k.get('layer'))
        key = lkey(vt, ct, layer)
        return {'d': key[0], 'x': key[1], 'ok': r is not False}
    vwrap('add_data', 'ViewerAddData', lambda v, vt, ct, a, k, r: {'d': ct.dname(a[0] if a else k.get('data')), 'ok': r is True})
    vwrap('remove_data', 'ViewerRemoveData', lambda v, vt, ct, a, k, r: {'d': ct.dname(a[0] if a else k.get('data')), 'ok': True})
    vwrap('add_subset', 'AddSubsetLayer', a_layer)
    vwrap('remove_subset', 'RemoveLayer', a_layer)
    vwrap('remove_layer', 'RemoveLayer', a_layer)

    o_cleanup = Viewer.cleanup

    def v_cleanup(self):
        vt = _BY_VIEWER.get(self)
        if vt is not None:
            vt.closed = True
        return o_cleanup(self)
    Viewer.cleanup = v_cleanup

    o_set = Viewer.__dict__['__setgluestate__'].__func__

    def v_set(cls, rec, context):
        v = o_set(cls, rec, context)
        vt = _BY_VIEWER.get(v)
        if vt is not None:
            emit(v, vt, 'Adopt')
        return v
    Viewer.__setgluestate__ = classmethod(v_set)

    # collection events reach the traces of the viewers of that collection
    def cwrap(name, evname, arg_of):
        orig = getattr(DataCollection, name)

        def f(self, *a, **k):
            vs = [v for v in viewers_of(self) if _BY_VIEWER.get(v) is not None and not _BY_VIEWER[v].closed and _BY_VIEWER[v].depth == 0]
            if name == 'append' and a and isinstance(a[0], list):
                return orig(self, *a, **k)
            for v in vs:
                presync(v, _BY_VIEWER[v])
                _BY_VIEWER[v].depth += 1
            ok = False
            try:
                r = orig(self, *a, **k)
                ok = True
                return r
            finally:
                for v in vs:
                    vt = _BY_VIEWER[v]
                    vt.depth -= 1
                    if ok:
                        try:
                            emit(v, vt, evname, **arg_of(ctrace(self), a, k, r))
                        except Exception:
                            vt.closed = True
                    else:
                        vt.closed = True
        setattr(DataCollection, name, f)
    cwrap('append', 'Append', lambda ct, a, k, r: {'d': ct.dname(a[0] if a else k.get('data'))})
    cwrap('remove', 'Remove', lambda ct, a, k, r: {'d': ct.dnames.get(id(a[0] if a else k.get('data')), 'X')})
    cwrap('new_subset_group', 'NewGroup', lambda ct, a, k, r: {'g': ct.gid(r)})
    cwrap('remove_subset_group', 'RemoveGroup', lambda ct, a, k, r: {'g': ct.gids.get(id(a[0] if a else k.get('subset_grp')), 0)})

    # stand-alone subsets
    o_addsub, o_delete = Data.add_subset, Subset.delete

    def find_dc(data):
        hub = getattr(data, 'hub', None)
        for dc in list(_VIEWERS_OF.keys()):
            if data in dc._data:
                return dc
        return None

    def d_add_subset(self, subset):
        r = o_addsub(self, subset)
        try:
            if not isinstance(subset, GroupedSubset):
                dc = find_dc(self)
                if dc is not None:
                    for v in viewers_of(dc):
                        vt = _BY_VIEWER.get(v)
                        if vt is not None and vt.depth == 0 and not vt.closed:
                            ct = ctrace(dc)
                            new = [s for s in self.subsets if not isinstance(s, GroupedSubset)][-1]
                            emit(v, vt, 'NewAlone', d=ct.dname(self), x=akey(vt, new))
        except Exception:
            pass
        return r
    Data.add_subset = d_add_subset

    def s_delete(self):
        data = getattr(self, 'data', None)
        grouped = isinstance(self, GroupedSubset)
        was_there = data is not None and hasattr(data, 'subsets') and self in data.subsets
        r = o_delete(self)
        try:
            if not grouped and was_there:
                dc = find_dc(data)
                if dc is not None:
                    for v in viewers_of(dc):
                        vt = _BY_VIEWER.get(v)
                        if vt is not None and vt.depth == 0 and not vt.closed:
                            emit(v, vt, 'DeleteAlone', d=ctrace(dc).dname(data), x=akey(vt, self))
        except Exception:
            pass
        return r
    Subset.delete = s_delete


def dump_viewers(path):
    out = [{'events': t.events, 'kind': t.kind} for t in VTRACES if len(t.events) > 1]
    with open(path, 'w') as f:
        json.dump(out, f)
    return len(out)
