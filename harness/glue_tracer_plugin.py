"""pytest plugin (-p harness.glue_tracer_plugin): records hub traces of the repository's own tests when
GLUE_VERIF_TRACE=1 and writes them to $GLUE_VERIF_TRACE_OUT at the end of the session."""
import os


def pytest_configure(config):
    if os.environ.get('GLUE_VERIF_TRACE') == '1':
        from harness import glue_tracer
        glue_tracer.install()
        glue_tracer.install_collection()
        if os.environ.get('GLUE_VERIF_TRACE_VIEWERS') == '1':
            glue_tracer.install_viewers()


def pytest_sessionfinish(session, exitstatus):
    if os.environ.get('GLUE_VERIF_TRACE') == '1' and os.environ.get('GLUE_VERIF_TRACE_OUT'):
        from harness import glue_tracer
        glue_tracer.dump(os.environ['GLUE_VERIF_TRACE_OUT'])
        glue_tracer.dump_collections(os.environ['GLUE_VERIF_TRACE_OUT'] + '.coll')
        glue_tracer.dump_viewers(os.environ['GLUE_VERIF_TRACE_OUT'] + '.viewers')
