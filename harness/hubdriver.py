"""Random driver for real Hub executions recorded by glue_tracer (E2 of C07): sizes well beyond the bounded model -
up to 6 listeners, a 3-level class tree with 7 classes, arbitrary filters (value-dependent, stateful), handlers
that perform nested random programs (broadcasts, (un)subscriptions, delay/ignore blocks, exceptions through delay
blocks)."""
import random


def run(seed, nops=40):
    from glue.core.hub import Hub, HubListener
    from glue.core.message import Message

    rng = random.Random(seed)

    class A(Message):
        pass

    class B(Message):
        pass

    class A1(A):
        pass

    class A2(A):
        pass

    class A11(A1):
        pass

    class B1(B):
        pass
    classes = [Message, A, B, A1, A2, A11, B1]

    class L(HubListener):
        def notify(self, message):
            pass

    hub = Hub()
    listeners = [L() for _ in range(rng.randint(1, 6))]
    budget = [nops]

    class Boom(Exception):
        pass

    def make_filter():
        k = rng.randrange(5)
        if k == 0:
            return lambda m: True
        if k == 1:
            return lambda m: False
        if k == 2:
            return lambda m: getattr(m, 'tag', 0) % 2 == 0
        if k == 3:
            state = [0]

            def f(m):
                state[0] += 1
                return state[0] % 3 != 0
            return f
        return lambda m: isinstance(m, (A1, B))

    def make_handler(depth):
        plan_seed = rng.randrange(1 << 30)

        def handler(msg):
            if depth < 3:
                program(random.Random(plan_seed ^ getattr(msg, 'tag', 0)), depth + 1, 3)
        return handler

    def program(r, depth, n):
        for _ in range(n):
            if budget[0] <= 0:
                return
            budget[0] -= 1
            k = r.randrange(100)
            if k < 30:
                c = r.choice(classes)
                m = c(None, tag=r.randrange(4))
                hub.broadcast(m)
            elif k < 50:
                hub.subscribe(r.choice(listeners), r.choice(classes), handler=make_handler(depth) if r.random() < 0.8 else None,
                              filter=make_filter(), priority=r.choice([0, 5, 10, 10, 20, -3]))
            elif k < 57:
                hub.unsubscribe(r.choice(listeners), r.choice(classes))
            elif k < 61:
                hub.unsubscribe_all(r.choice(listeners))
            elif k < 78:
                try:
                    with hub.delay_callbacks():
                        program(r, depth, r.randint(1, 4))
                        if r.random() < 0.15:
                            raise Boom()
                except Boom:
                    pass
            elif k < 90:
                with hub.ignore_callbacks(r.choice(classes)):
                    program(r, depth, r.randint(1, 3))
            else:
                hub.broadcast(r.choice(classes)(None, tag=7))

    # setup: a few subscriptions first so that broadcasts have receivers
    for _ in range(rng.randint(1, 6)):
        hub.subscribe(rng.choice(listeners), rng.choice(classes), handler=make_handler(0), filter=make_filter(),
                      priority=rng.choice([0, 5, 10, 10, 20]))
    program(rng, 0, nops)
    return hub


def main(argv):
    """python -m harness.hubdriver <first seed> <count> <nops> <out.json>  (run in a subprocess: the tracer patches Hub)"""
    import json
    from harness import core, glue_tracer
    core.use_repo()
    glue_tracer.install()
    first, count, nops, out = int(argv[0]), int(argv[1]), int(argv[2]), argv[3]
    recs = []
    for s in range(first, first + count):
        n0 = len(glue_tracer.TRACES)
        try:
            run(s, nops)
        except RecursionError:
            pass
        for t in glue_tracer.TRACES[n0:]:
            if t.events and not t.unsupported:
                recs.append({'events': t.events, 'classes': t.classes, 'aborted': t.aborted, 'seed': s, 'nops': nops})
        del glue_tracer.TRACES[n0:]
    with open(out, 'w') as f:
        json.dump(recs, f)


if __name__ == '__main__':
    import sys
    main(sys.argv[1:])
