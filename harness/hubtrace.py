"""Validation of recorded hub traces with TLC against Trace_Hub.tla (E2 for C07)."""
import json
import os
import re
import subprocess
import sys

from . import tlc
from .tlaval import parse_state

MAX_EVENTS = 400        # per trace (longer traces are cut: a prefix of an execution is an execution)


def _s(x):
    return '"' + x.replace('\\', '\\\\').replace('"', '\\"') + '"'


def tla(v):
    if isinstance(v, bool):
        return 'TRUE' if v else 'FALSE'
    if isinstance(v, int):
        return str(v)
    if isinstance(v, str):
        return _s(v)
    if isinstance(v, (list, tuple)):
        return '<<' + ', '.join(tla(x) for x in v) + '>>'
    if isinstance(v, dict) and not v:
        return '<<>>'
    if isinstance(v, dict):
        return '[' + ', '.join('%s |-> %s' % (k, tla(x)) for k, x in sorted(v.items())) + ']'
    raise TypeError(v)


def _namespaced(traces):
    """Classes defined outside glue (tests, drivers) are named Class@address by the tracer; addresses are reused
    between traces, so such names are made unique per trace of a batch."""
    out = []
    for k, t in enumerate(traces):
        ren = {c: (c if '@' not in c else '%s~%d' % (c, k)) for c in t['classes']}
        ren['none'] = 'none'
        ev = []
        for e in t['events']:
            e = dict(e)
            if 'c' in e:
                e['c'] = ren[e['c']]
            if 'evals' in e:
                e['evals'] = [dict(x, c=ren[x['c']]) for x in e['evals']]
            ev.append(e)
        out.append(dict(t, events=ev, classes={ren[c]: ren[p] for c, p in t['classes'].items()}))
    return out


def gen_module(traces):
    traces = _namespaced(traces)
    classes = {}
    listeners = set()
    prios = set([10])
    maxmsg = 1
    for t in traces:
        classes.update(t['classes'])
        for e in t['events']:
            if 'l' in e:
                listeners.add(e['l'])
            if e['ev'] == 'Subscribe':
                prios.add(int(e['p']))
            if e['ev'] == 'Broadcast':
                maxmsg = max(maxmsg, e['m'])
            for x in e.get('evals', []):
                listeners.add(x['l'])
    classes.setdefault('message.Message', 'none')
    cl = sorted(classes)
    parent = '[c \\in g_Class |-> CASE ' + ' [] '.join('c = %s -> %s' % (_s(c), _s(classes[c])) for c in cl) + ']'
    return '\n'.join(['---- MODULE Trace_Hub_Gen ----', 'g_Listener == {%s}' % ', '.join(_s(l) for l in sorted(listeners) or ['L1']),
                      'g_Class == {%s}' % ', '.join(_s(c) for c in cl), 'g_Parent == ' + parent,
                      'g_Prio == {%s}' % ', '.join(str(p) for p in sorted(prios)), 'g_MaxMsg == %d' % maxmsg,
                      'g_Traces == <<\n' + ',\n'.join(tla(t['events']) for t in traces) + '\n>>', '====', ''])


def lifo(events):
    """with-blocks are properly nested inside every handler activation"""
    stack = [[]]
    for e in events:
        k = e['ev']
        if k == 'Deliver':
            stack.append([])
        elif k == 'Return':
            if stack.pop():
                return False
        elif k == 'DelayEnter':
            stack[-1].append('delay')
        elif k == 'IgnoreEnter':
            stack[-1].append('ignore:' + e['c'])
        elif k == 'DelayExit':
            if not stack[-1] or stack[-1].pop() != 'delay':
                return False
        elif k == 'IgnoreExit':
            if not stack[-1] or stack[-1].pop() != 'ignore:' + e['c']:
                return False
    return True


def prepare(traces, domain=True):
    """Cut and filter traces; returns the list handed to TLC (list of event lists) and the kept trace records."""
    kept = []
    for t in traces:
        ev = t['events']
        if domain and not lifo(ev):
            continue          # block contexts closed out of order: outside the statement (and the spec's) domain
        if not any(e['ev'] in ('Broadcast',) for e in ev):
            continue
        if len(ev) > MAX_EVENTS:
            ev = ev[:MAX_EVENTS]
        # negative priorities are mapped order-preservingly into naturals
        kept.append(dict(t, events=ev))
    allp = sorted(set(int(e['p']) for t in kept for e in t['events'] if e['ev'] == 'Subscribe'))
    rank = {p: k + 1 for k, p in enumerate(allp)}
    for t in kept:
        t['events'] = [dict(e, p=rank[int(e['p'])]) if e['ev'] == 'Subscribe' else e for e in t['events']]
    return kept


def validate(wd, traces, batch=100, timeout=1800, domain=True):
    """Returns (accepted, rejected: list of (trace record, index of the first unmatched event), states, kept)."""
    kept = prepare(traces, domain)
    accepted, rejected, states = 0, [], 0
    for lo in range(0, len(kept), batch):
        part = kept[lo:lo + batch]
        while part:
            done, far, st = _run(wd, part, timeout)
            states += st
            accepted += done
            if done == len(part):
                break
            tix, eix = divmod(far, 100000)
            if tix != done + 1:
                raise tlc.TLCError('Trace_Hub: inconsistent registers %r %r' % (done, far))
            rejected.append((part[done], eix))
            part = part[done + 1:]
    return accepted, rejected, states, len(kept)


def _run(wd, part, timeout):
    wd.write('Trace_Hub_Gen.tla', gen_module(part))
    res = tlc.run_tlc(wd, 'MC_Trace_Hub.tla', 'Trace_Hub.cfg', workers=1, timeout=timeout,
                      java_opts=['-Dtlc2.tool.queue.IStateQueue=StateDeque'])
    m = re.search(r'<<"FURTHEST", (\d+), (\d+)>>', res.out)
    if not m:
        raise tlc.TLCError('Trace_Hub failed:\n' + res.out[-2500:])
    return int(m.group(1)), int(m.group(2)), res.distinct


def record_repo_tests(out_path, files, repo, timeout=3000, want_collections=False):
    """Run some of the repository's own tests under the tracer (in a subprocess) and return the traces."""
    root = os.path.dirname(os.path.dirname(os.path.abspath(__file__)))
    env = dict(os.environ, GLUE_VERIF_TRACE='1', GLUE_VERIF_TRACE_OUT=out_path, PYTHONPATH=root + os.pathsep + repo, MPLBACKEND='Agg')
    if want_collections == 'viewers':
        env['GLUE_VERIF_TRACE_VIEWERS'] = '1'
    files = [f for f in files if os.path.exists(os.path.join(repo, f))]      # lists name files that some trees do not have
    cmd = [sys.executable, '-m', 'pytest', '-q', '-p', 'no:cacheprovider', '-p', 'harness.glue_tracer_plugin', '--timeout=900'] + files
    p = subprocess.run(cmd, cwd=repo, env=env, stdout=subprocess.PIPE, stderr=subprocess.STDOUT, timeout=timeout)
    tail = p.stdout.decode('utf-8', 'replace')[-400:]
    if not os.path.exists(out_path):
        raise RuntimeError('tracer produced no output:\n' + tail)
    with open(out_path) as f:
        hub = json.load(f)
    coll = []
    if os.path.exists(out_path + '.coll'):
        with open(out_path + '.coll') as f:
            coll = json.load(f)
    if want_collections == 'viewers':
        with open(out_path + '.viewers') as f:
            return hub, coll, json.load(f), tail
    if want_collections:
        return hub, coll, tail
    return hub, tail


def record_driver(out_path, first, count, nops, repo, timeout=1800):
    root = os.path.dirname(os.path.dirname(os.path.abspath(__file__)))
    env = dict(os.environ, GLUE_VERIF_TRACE='1', PYTHONPATH=root, VERIF_REPO=repo)
    p = subprocess.run([sys.executable, '-m', 'harness.hubdriver', str(first), str(count), str(nops), out_path], cwd=root, env=env,
                       stdout=subprocess.PIPE, stderr=subprocess.STDOUT, timeout=timeout)
    if p.returncode != 0 or not os.path.exists(out_path):
        raise RuntimeError('hub driver failed:\n' + p.stdout.decode('utf-8', 'replace')[-1500:])
    with open(out_path) as f:
        return json.load(f)


def corruptions(trace):
    """Variants of a recorded trace that NO execution of the specified hub can produce (each is guaranteed to be
    rejected; used to demonstrate that the trace spec binds: if one is accepted the machinery is broken).
    Yields (kind, events)."""
    ev = trace['events']
    n = len(ev)
    done = set()

    def out(kind, events):
        done.add(kind)
        return kind, events
    for i, e in enumerate(ev):
        nxt = ev[i + 1] if i + 1 < n else None
        if e['ev'] in ('Broadcast', 'FlushItem') and e['fate'] == 'deliver' and nxt and nxt['ev'] == 'Deliver' and nxt['m'] == e['m']:
            if 'fate' not in done:
                yield out('fate', ev[:i] + [dict(e, fate='queued', evals=[])] + ev[i + 1:])
            if 'deliver_to_stranger' not in done:
                yield out('deliver_to_stranger', ev[:i + 1] + [dict(nxt, l='L99')] + ev[i + 2:])
            if 'filter_outcome' not in done:
                evals = [dict(x, r=False) if (x['l'], x['c']) == (nxt['l'], nxt['c']) else x for x in e['evals']]
                yield out('filter_outcome', ev[:i] + [dict(e, evals=evals)] + ev[i + 1:])
            if 'wrong_subscription' not in done and nxt['c'] != 'message.Message':
                # the hub consulted a less specific subscription than the listener's most specific one
                evals = [dict(x, c='message.Message') if (x['l'], x['c']) == (nxt['l'], nxt['c']) else x for x in e['evals']]
                yield out('wrong_subscription', ev[:i] + [dict(e, evals=evals)] + [dict(nxt, c='message.Message')] + ev[i + 2:])
        if e['ev'] == 'FlushItem' and nxt and nxt['ev'] == 'FlushItem' and 'lost_queued' not in done:
            yield out('lost_queued', ev[:i] + ev[i + 1:])
        if e['ev'] == 'FlushItem' and nxt and nxt['ev'] == 'FlushItem' and 'flush_order' not in done:
            yield out('flush_order', ev[:i] + [nxt, e] + ev[i + 2:])
        if e['ev'] == 'DelayEnter' and nxt and nxt['ev'] == 'Broadcast' and nxt['fate'] == 'queued' and 'no_delay' not in done:
            depth = sum(1 for x in ev[:i] if x['ev'] == 'DelayEnter') - sum(1 for x in ev[:i] if x['ev'] == 'DelayExit')
            if depth == 0:
                yield out('no_delay', ev[:i] + ev[i + 1:])
        if e['ev'] == 'Broadcast' and e['fate'] == 'queued' and nxt and nxt['ev'] != 'Deliver' and 'deliver_while_delayed' not in done:
            # a delivery although a delay block is open
            subs = [x for x in ev[:i] if x['ev'] == 'Subscribe']
            if subs:
                s = subs[-1]
                yield out('deliver_while_delayed', ev[:i + 1] + [{'ev': 'Deliver', 'l': s['l'], 'c': s['c'], 'm': e['m']},
                                                                 {'ev': 'Return', 'l': s['l'], 'm': e['m']}] + ev[i + 1:])
        if e['ev'] == 'Deliver' and nxt and nxt['ev'] == 'Return' and 'delivered_twice' not in done:
            yield out('delivered_twice', ev[:i + 2] + [e, nxt] + ev[i + 2:])
