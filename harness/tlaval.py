"""Parser for TLC's printed value syntax (states in dot labels, -dump files, -simulate files).

Values map to Python as: record -> dict, sequence/tuple -> tuple, set -> frozenset,
function (k :> v @@ ...) -> FnDict(dict), string -> str, int -> int, TRUE/FALSE -> bool,
model value / identifier -> Sym(str subclass), a..b -> frozenset(range).
"""
import re

_TOK = re.compile(r'''
    \s*(?:
      (?P<str>"(?:[^"\\]|\\.)*")
    | (?P<num>-?\d+)
    | (?P<op>\|->|:>|@@|<<|>>|\.\.|/\\|[\[\]{}(),=])
    | (?P<id>[A-Za-z_][A-Za-z0-9_!]*)
    )''', re.X)


class Sym(str):
    """A model value or bare identifier."""
    __slots__ = ()

    def __repr__(self):
        return 'Sym(%s)' % str.__repr__(self)


class FnDict(dict):
    """A TLA+ function with a non-sequence domain."""

    def __hash__(self):
        return hash(frozenset(self.items()))


class Rec(dict):
    """A TLA+ record; hashable so records can be set members."""

    def __hash__(self):
        return hash(frozenset(self.items()))

    def __getattr__(self, k):
        try:
            return self[k]
        except KeyError:
            raise AttributeError(k)


def tokenize(s):
    pos = 0
    n = len(s)
    out = []
    while pos < n:
        m = _TOK.match(s, pos)
        if not m:
            if s[pos:].strip() == '':
                break
            raise ValueError('cannot tokenize at %r' % s[pos:pos + 40])
        pos = m.end()
        k = m.lastgroup
        out.append((k, m.group(k)))
    return out


_UNESC = re.compile(r'\\(.)')


def _unescape(s):
    return _UNESC.sub(lambda m: {'n': '\n', 't': '\t'}.get(m.group(1), m.group(1)), s[1:-1])


class _P(object):
    def __init__(self, toks):
        self.t = toks
        self.i = 0

    def peek(self):
        return self.t[self.i] if self.i < len(self.t) else (None, None)

    def eat(self, v=None):
        k, x = self.t[self.i]
        if v is not None and x != v:
            raise ValueError('expected %r got %r at token %d' % (v, x, self.i))
        self.i += 1
        return k, x

    def value(self):
        k, x = self.eat()
        if k == 'str':
            return _unescape(x)
        if k == 'num':
            v = int(x)
            if self.peek()[1] == '..':
                self.eat()
                hi = self.value()
                return frozenset(range(v, hi + 1))
            return v
        if k == 'id':
            if x == 'TRUE':
                return True
            if x == 'FALSE':
                return False
            return Sym(x)
        if x == '<<':
            items = []
            if self.peek()[1] == '>>':
                self.eat()
                return ()
            while True:
                items.append(self.value())
                k2, x2 = self.eat()
                if x2 == '>>':
                    return tuple(items)
                if x2 != ',':
                    raise ValueError('bad sequence')
        if x == '{':
            items = []
            if self.peek()[1] == '}':
                self.eat()
                return frozenset()
            while True:
                items.append(self.value())
                k2, x2 = self.eat()
                if x2 == '}':
                    return frozenset(items)
                if x2 != ',':
                    raise ValueError('bad set')
        if x == '[':
            rec = Rec()
            if self.peek()[1] == ']':
                self.eat()
                return rec
            while True:
                k2, name = self.eat()
                self.eat('|->')
                rec[name] = self.value()
                k3, x3 = self.eat()
                if x3 == ']':
                    return rec
                if x3 != ',':
                    raise ValueError('bad record')
        if x == '(':
            fn = FnDict()
            while True:
                key = self.value()
                self.eat(':>')
                fn[key] = self.value()
                k3, x3 = self.eat()
                if x3 == ')':
                    return fn
                if x3 != '@@':
                    raise ValueError('bad function')
        raise ValueError('unexpected token %r' % (x,))


def parse_value(s):
    p = _P(tokenize(s))
    v = p.value()
    if p.i != len(p.t):
        raise ValueError('trailing tokens in %r' % s[:80])
    return v


_CONJ = re.compile(r'^/\\ ([A-Za-z_][A-Za-z0-9_]*) = ', re.M)


def parse_state(text):
    """Parse '/\\ x = v\n/\\ y = w' (values may span lines) into {var: value}."""
    text = text.strip()
    ms = list(_CONJ.finditer(text))
    if not ms:
        # single variable printed without the bullet
        m = re.match(r'^([A-Za-z_][A-Za-z0-9_]*) = ', text)
        if not m:
            raise ValueError('cannot parse state %r' % text[:80])
        return {m.group(1): parse_value(text[m.end():])}
    out = {}
    for i, m in enumerate(ms):
        end = ms[i + 1].start() if i + 1 < len(ms) else len(text)
        out[m.group(1)] = parse_value(text[m.end():end])
    return out


def to_json(v):
    """JSON-able rendering (sets sorted by repr, functions/records as dicts with str keys)."""
    if isinstance(v, bool) or isinstance(v, int):
        return v
    if isinstance(v, str):
        return str(v)
    if isinstance(v, tuple):
        return [to_json(x) for x in v]
    if isinstance(v, frozenset):
        return sorted((to_json(x) for x in v), key=lambda z: repr(z))
    if isinstance(v, dict):
        return {(k if isinstance(k, str) else repr(to_json(k))): to_json(x) for k, x in v.items()}
    raise TypeError(type(v))


def to_tla(v):
    """Render a Python value (from JSON or from this parser) as a TLA+ expression."""
    if isinstance(v, bool):
        return 'TRUE' if v else 'FALSE'
    if isinstance(v, int):
        return str(v)
    if isinstance(v, Sym):
        return str(v)
    if isinstance(v, str):
        return '"' + v.replace('\\', '\\\\').replace('"', '\\"') + '"'
    if isinstance(v, (tuple, list)):
        return '<<' + ', '.join(to_tla(x) for x in v) + '>>'
    if isinstance(v, (frozenset, set)):
        return '{' + ', '.join(sorted(to_tla(x) for x in v)) + '}'
    if isinstance(v, FnDict):
        if not v:
            return '<<>>'
        return '(' + ' @@ '.join('%s :> %s' % (to_tla(k), to_tla(x)) for k, x in v.items()) + ')'
    if isinstance(v, dict):
        if not v:
            return '<<>>'
        return '[' + ', '.join('%s |-> %s' % (k, to_tla(x)) for k, x in v.items()) + ']'
    raise TypeError(type(v))
