"""Running TLC and reading what it writes (summary, coverage, dot graphs, state dumps, simulation traces)."""
import os
import re
import shutil
import subprocess
import tempfile
import time

from .tlaval import parse_state

SPECS = os.path.join(os.path.dirname(os.path.dirname(os.path.abspath(__file__))), 'specs')
JAR_CP = '/opt/veriftools/tla/tla2tools.jar:/opt/veriftools/tla/CommunityModules-deps.jar'


class TLCError(RuntimeError):
    pass


def scratch_root():
    for root in ('/dev/shm', '/tmp'):
        try:
            st = os.statvfs(root)
            if st.f_bavail * st.f_frsize > 2 * 1024 ** 3:
                return root
        except OSError:
            pass
    return '/tmp'


class Workdir(object):
    """Per-run scratch directory holding a copy of the specs, removed on exit."""

    def __init__(self, prefix='verif-'):
        self.path = tempfile.mkdtemp(prefix=prefix, dir=scratch_root())
        for f in os.listdir(SPECS):
            if f.endswith('.tla') or f.endswith('.cfg'):
                shutil.copy(os.path.join(SPECS, f), self.path)

    def write(self, name, text):
        with open(os.path.join(self.path, name), 'w') as f:
            f.write(text)
        return os.path.join(self.path, name)

    def file(self, name):
        return os.path.join(self.path, name)

    def close(self):
        shutil.rmtree(self.path, ignore_errors=True)

    def __enter__(self):
        return self

    def __exit__(self, *a):
        self.close()


_SUMMARY = re.compile(r'(\d+) states generated, (\d+) distinct states found, (\d+) states left on queue')
_DEPTH = re.compile(r'The depth of the complete state graph search is (\d+)')
_COV = re.compile(r'^<(\w+) line (\d+), col \d+ to line \d+, col \d+ of module (\w+)(?: \([\d ]+\))?>: (\d+):(\d+)', re.M)


class TLCResult(object):
    def __init__(self, out, rc, wall):
        self.out = out
        self.rc = rc
        self.wall = wall
        m = None
        for m in _SUMMARY.finditer(out):
            pass
        self.generated = int(m.group(1)) if m else 0
        self.distinct = int(m.group(2)) if m else 0
        self.left = int(m.group(3)) if m else 0
        d = _DEPTH.search(out)
        self.depth = int(d.group(1)) if d else 0
        self.ok = ('Model checking completed. No error has been found.' in out) or \
                  ('Finished in' in out and 'Error:' not in out and rc == 0)
        self.violated_invariant = None
        mi = re.search(r'Invariant (\w+) is violated', out)
        if mi:
            self.violated_invariant = mi.group(1)
        mp = re.search(r'(?:Action|Temporal) property (\w+) (?:is|was) violated', out)
        if mp:
            self.violated_invariant = mp.group(1)
        self.coverage = {}
        for m in _COV.finditer(out):
            name = m.group(1)
            if name in ('Init',):
                continue
            prev = self.coverage.get(name, (0, 0))
            self.coverage[name] = (prev[0] + int(m.group(4)), prev[1] + int(m.group(5)))

    def error_trace(self):
        """States of the counterexample printed by TLC, as list of (action, state dict)."""
        out = []
        for m in re.finditer(r'^State (\d+): <([^>]*)>\n((?:/\\ .*\n(?:[^\n/S].*\n)*)+)', self.out, re.M):
            try:
                out.append((m.group(2).split(' ')[0], parse_state(m.group(3))))
            except ValueError:
                pass
        return out


MAX_SCRATCH = 6 * 1024 ** 3


def _dir_size(path):
    total = 0
    for root, _, files in os.walk(path):
        for f in files:
            try:
                total += os.path.getsize(os.path.join(root, f))
            except OSError:
                pass
    return total


def run_tlc(wd, module, cfg, workers=16, timeout=600, extra=(), coverage=False, deadlock_off=True,
            java_opts=(), env=None, heap='8g'):
    """Run TLC in model-checking mode; returns TLCResult. Raises TLCError on timeout/crash."""
    meta = tempfile.mkdtemp(prefix='meta-', dir=wd.path)
    cmd = ['java', '-XX:+UseParallelGC', '-Xmx' + heap] + list(java_opts) + [
        '-cp', JAR_CP, 'tlc2.TLC', '-workers', str(workers), '-metadir', meta, '-noGenerateSpecTE',
        '-config', cfg]
    if deadlock_off:
        cmd.append('-deadlock')
    if coverage:
        cmd += ['-coverage', '1']
    cmd += list(extra) + [module]
    t0 = time.time()
    e = dict(os.environ)
    if env:
        e.update(env)
    outpath = os.path.join(meta, 'tlc.out')
    try:
        with open(outpath, 'wb') as fo:
            proc = subprocess.Popen(cmd, cwd=wd.path, stdout=fo, stderr=subprocess.STDOUT, env=e)
            try:
                # poll: a state-graph export that outgrows MAX_SCRATCH is stopped (the scratch directory may be in RAM)
                while True:
                    try:
                        proc.wait(timeout=5)
                        break
                    except subprocess.TimeoutExpired:
                        pass
                    if time.time() - t0 > timeout:
                        proc.kill()
                        proc.wait()
                        raise subprocess.TimeoutExpired(cmd, timeout)
                    if _dir_size(wd.path) > MAX_SCRATCH:
                        proc.kill()
                        proc.wait()
                        raise TLCError('TLC output of %s/%s outgrew %d GB of scratch space: the configuration is too large for '
                                       'graph export' % (module, cfg, MAX_SCRATCH // 1024 ** 3))
            except BaseException:
                if proc.poll() is None:
                    proc.kill()
                    proc.wait()
                raise
            p = proc
        with open(outpath, 'rb') as fo:
            out = fo.read().decode('utf-8', 'replace')
    except subprocess.TimeoutExpired as ex:
        with open(outpath, 'rb') as fo:
            tail = fo.read().decode('utf-8', 'replace')[-1500:]
        raise TLCError('TLC timed out after %ss on %s/%s\n%s' % (timeout, module, cfg, tail))
    finally:
        shutil.rmtree(meta, ignore_errors=True)
    res = TLCResult(out, p.returncode, time.time() - t0)
    if 'Parsing or semantic analysis failed' in out or 'TLC threw an unexpected exception' in out \
            or 'Error: Parsing' in out or 'java.lang.' in out and 'Error' in out and not res.violated_invariant:
        raise TLCError('TLC failed on %s/%s:\n%s' % (module, cfg, out[-3000:]))
    return res


# ------------------------------------------------------------------------------------------------
# dot graphs

_NODE = re.compile(r'^(-?\d+) \[label="((?:[^"\\]|\\.)*)"')
_EDGE = re.compile(r'^(-?\d+) -> (-?\d+) \[label="([^"]*)"')


def _unesc_label(s):
    return s.replace('\\n', '\n').replace('\\"', '"').replace('\\\\', '\\')


class Graph(object):
    """State graph from `-dump dot,actionlabels`: nodes {id: raw state text}, edges [(src, dst, action)]."""

    def __init__(self, path):
        self.raw = {}
        self.edges = []
        self.init = []
        with open(path) as f:
            for line in f:
                m = _EDGE.match(line)
                if m:
                    self.edges.append((m.group(1), m.group(2), m.group(3)))
                    continue
                m = _NODE.match(line)
                if m:
                    self.raw[m.group(1)] = m.group(2)
                    if 'style = filled' in line[m.end():m.end() + 40]:
                        self.init.append(m.group(1))
        self._parsed = {}

    def state(self, nid):
        s = self._parsed.get(nid)
        if s is None:
            s = parse_state(_unesc_label(self.raw[nid]))
            self._parsed[nid] = s
        return s

    def spanning_paths(self):
        """BFS spanning tree. Returns (parent: {node: (pred, action)}, order: [nodes in BFS order])."""
        succ = {}
        for a, b, lab in self.edges:
            succ.setdefault(a, []).append((b, lab))
        parent = {}
        order = []
        from collections import deque
        dq = deque()
        for i in self.init:
            parent[i] = None
            dq.append(i)
        while dq:
            n = dq.popleft()
            order.append(n)
            for b, lab in succ.get(n, ()):
                if b not in parent:
                    parent[b] = (n, lab)
                    dq.append(b)
        return parent, order, succ

    def path_to(self, parent, n):
        p = []
        while parent[n] is not None:
            p.append(n)
            n = parent[n][0]
        p.append(n)
        p.reverse()
        return p

    def behaviours(self, max_behaviours=None):
        """Node-id paths giving transition coverage: every root-to-leaf path of the BFS tree,
        plus for every non-tree edge the tree path to its source followed by the edge."""
        parent, order, succ = self.spanning_paths()
        children = {}
        for n, p in parent.items():
            if p is not None:
                children.setdefault(p[0], []).append(n)
        out = []
        for n in order:
            if n not in children:
                out.append(self.path_to(parent, n))
        tree_edges = set((p[0], n) for n, p in parent.items() if p is not None)
        seen = set()
        for a, b, lab in self.edges:
            if (a, b) in tree_edges or (a, b) in seen or a not in parent:
                continue
            seen.add((a, b))
            out.append(self.path_to(parent, a) + [b])
        if max_behaviours is not None and len(out) > max_behaviours:
            out = out[:max_behaviours]
        return out


def dump_graph(wd, module, cfg, workers=16, timeout=600, coverage=False):
    dot = wd.file('graph_%s.dot' % os.path.splitext(os.path.basename(cfg))[0])
    res = run_tlc(wd, module, cfg, workers=workers, timeout=timeout, coverage=coverage,
                  extra=['-dump', 'dot,actionlabels', dot])
    if not res.ok:
        raise TLCError('generation run failed for %s/%s:\n%s' % (module, cfg, res.out[-3000:]))
    g = Graph(dot)
    os.remove(dot)
    return res, g


_DUMPSTATE = re.compile(r'^State \d+:\n', re.M)


def dump_states(wd, module, cfg, workers=16, timeout=600, coverage=False):
    """All distinct states of the model as list of state dicts (lazy generator of raw texts)."""
    base = wd.file('states_%s' % os.path.splitext(os.path.basename(cfg))[0])
    res = run_tlc(wd, module, cfg, workers=workers, timeout=timeout, coverage=coverage,
                  extra=['-dump', base])
    if not res.ok:
        raise TLCError('state dump failed for %s/%s:\n%s' % (module, cfg, res.out[-3000:]))
    path = base + '.dump'
    with open(path) as f:
        text = f.read()
    os.remove(path)
    chunks = _DUMPSTATE.split(text)
    return res, [c for c in chunks if c.strip()]


# ------------------------------------------------------------------------------------------------
# simulation

_SIMSTATE = re.compile(r'^STATE_(\d+) ==\s*\n?', re.M)


def simulate(wd, module, cfg, num, depth, seed, timeout=600, workers=1):
    """tlc -simulate: returns list of behaviours, each a list of state dicts."""
    outdir = tempfile.mkdtemp(prefix='sim-', dir=wd.path)
    res = run_tlc(wd, module, cfg, workers=workers, timeout=timeout, deadlock_off=True,
                  extra=['-simulate', 'file=%s/tr,num=%d' % (outdir, num), '-depth', str(depth),
                         '-seed', str(seed)])
    behaviours = []
    for fn in sorted(os.listdir(outdir)):
        with open(os.path.join(outdir, fn)) as f:
            text = f.read()
        parts = _SIMSTATE.split(text)
        # parts: [pre, n1, body1, n2, body2, ...]
        states = []
        for i in range(2, len(parts), 2):
            body = parts[i]
            body = re.split(r'^\s*$|^=+$|^\\\*', body, maxsplit=1, flags=re.M)[0]
            try:
                states.append(parse_state(body))
            except ValueError:
                break
        if states:
            behaviours.append(states)
    shutil.rmtree(outdir, ignore_errors=True)
    return res, behaviours


def sany(path):
    p = subprocess.run(['java', '-cp', JAR_CP, 'tla2sany.SANY', os.path.basename(path)],
                       cwd=os.path.dirname(path), stdout=subprocess.PIPE, stderr=subprocess.STDOUT)
    out = p.stdout.decode()
    return ('Semantic errors' not in out and 'Parse Error' not in out and 'Fatal' not in out
            and p.returncode == 0), out
