"""Generic driver for the batched TLC trace validations (Trace_Hub / Trace_Collection / Trace_Viewer): the traces of a batch are
written as a TLA+ literal into a generated module, TLC (one worker, depth-first queue) consumes them one after the other and
reports through registers how many were fully consumed and the furthest position reached; a rejected trace is taken out and
the rest of the batch is validated again."""
import re

from . import tlc


def validate(wd, kept, gen_name, gen_module, module, cfg, batch=150, timeout=1800):
    """kept: prepared trace records. Returns (accepted, rejected [(trace, index of first unmatched event)], states)."""
    accepted, rejected, states = 0, [], 0
    for lo in range(0, len(kept), batch):
        part = kept[lo:lo + batch]
        while part:
            wd.write(gen_name, gen_module(part))
            res = tlc.run_tlc(wd, module, cfg, workers=1, timeout=timeout, java_opts=['-Dtlc2.tool.queue.IStateQueue=StateDeque'])
            m = re.search(r'<<"FURTHEST", (\d+), (\d+)>>', res.out)
            if not m:
                raise tlc.TLCError('%s failed:\n%s' % (module, res.out[-2500:]))
            done, far = int(m.group(1)), int(m.group(2))
            states += res.distinct
            accepted += done
            if done == len(part):
                break
            tix, eix = divmod(far, 100000)
            if tix != done + 1:
                raise tlc.TLCError('%s: inconsistent registers %r %r' % (module, done, far))
            rejected.append((part[done], eix))
            part = part[done + 1:]
    return accepted, rejected, states
