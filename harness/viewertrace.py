"""Validation of recorded viewer traces with TLC against Trace_Viewer.tla (E2 for C18)."""
from . import tracecheck
from .hubtrace import tla, _s

MAX_EVENTS = 300
VIEWER_OPS = ('ViewerAddData', 'ViewerRemoveData', 'RemoveLayer', 'AddSubsetLayer')


def prepare(traces):
    kept = []
    for t in traces:
        ev = t['events'][:MAX_EVENTS]
        out = []
        for i, e in enumerate(ev):
            if i > 0 and not e.get('registered', False):
                break               # a viewer that is not registered to the hub receives no messages: outside the statement
            if e['ev'] in VIEWER_OPS and e.get('delay', 0) > 0:
                break               # viewer operations inside a hub delay block are outside the model
            if e.get('d') == 'X' or e.get('d') == 'list':
                break
            out.append(e)
        if len(out) > 1:
            kept.append(dict(t, events=out))
    return kept


def _norm(e, k):
    def dn(x):
        return '%s_%d' % (x, k)
    out = {'ev': e['ev'], 'coll': [dn(x) for x in e['coll']], 'groups': list(e['groups']), 'alone': [[dn(d), x] for d, x in e['alone']],
           'layers': [[dn(d), x] for d, x in e['layers']], 'slayers': [[dn(d), x] for d, x in e['slayers']], 'delay': int(e['delay']),
           'registered': bool(e['registered'])}
    if 'd' in e:
        out['d'] = dn(e['d'])
    for f in ('g', 'x'):
        if f in e:
            out[f] = int(e[f])
    if 'ok' in e:
        out['ok'] = bool(e['ok'])
    return out


def gen_module(part):
    names, rows = set(), []
    for k, t in enumerate(part):
        ev = [_norm(e, k) for e in t['events']]
        for e in ev:
            names.update(e['coll'])
            if 'd' in e:
                names.add(e['d'])
        rows.append(tla(ev))
    return '\n'.join(['---- MODULE Trace_Viewer_Gen ----', 'g_VData == {%s}' % ', '.join(_s(n) for n in sorted(names) or ['D']),
                      'g_VTraces == <<\n' + ',\n'.join(rows) + '\n>>', '====', ''])


def validate(wd, traces, batch=150, timeout=1800):
    kept = prepare(traces)
    a, r, s = tracecheck.validate(wd, kept, 'Trace_Viewer_Gen.tla', gen_module, 'MC_Trace_Viewer.tla', 'Trace_Viewer.cfg', batch, timeout)
    return a, r, s, len(kept)


def corruptions(trace):
    """Impossible variants of a recorded viewer trace (binding self-test). Yields (kind, events)."""
    ev = trace['events']
    done = set()
    for i, e in enumerate(ev):
        if i == 0 or e.get('delay', 0) != 0:
            continue
        if e['ev'] == 'ViewerAddData' and e.get('ok') and e['layers'] and 'missing_layer' not in done:
            done.add('missing_layer')
            yield 'missing_layer', ev[:i] + [dict(e, layers=e['layers'][:-1], slayers=e['slayers'][:-1])] + ev[i + 1:]
        if e['layers'] and 'duplicate_layer' not in done:
            done.add('duplicate_layer')
            yield 'duplicate_layer', ev[:i] + [dict(e, layers=e['layers'] + e['layers'][:1], slayers=e['slayers'] + e['slayers'][:1])] + ev[i + 1:]
        if len(e['layers']) >= 1 and 'state_disagrees' not in done:
            done.add('state_disagrees')
            yield 'state_disagrees', ev[:i] + [dict(e, slayers=e['slayers'][:-1])] + ev[i + 1:]
        if e['ev'] in ('Remove', 'ViewerRemoveData') and 'stale_layer' not in done and e.get('d'):
            done.add('stale_layer')
            yield 'stale_layer', ev[:i] + [dict(e, layers=e['layers'] + [[e['d'], 0]], slayers=e['slayers'] + [[e['d'], 0]])] + ev[i + 1:]
        if e['ev'] == 'NewGroup' and any(k[1] == e['g'] for k in e['layers']) and 'no_subset_layer' not in done:
            done.add('no_subset_layer')
            yield 'no_subset_layer', ev[:i] + [dict(e, layers=[k for k in e['layers'] if k[1] != e['g']],
                                                   slayers=[k for k in e['slayers'] if k[1] != e['g']])] + ev[i + 1:]
