"""Concretisation library: datasets with every attribute kind and factories for every elementary selection kind.

Used by the adapters of C01, C02, C04, C05 (and others).  Everything is deterministic; factories build FRESH
state objects on every call so that no memo cache is shared between the object under test and the oracle."""
import numpy as np


def float_values(shape):
    n = int(np.prod(shape))
    f = np.arange(n, dtype=float) * 0.5 - 1.0
    if n > 1:
        f[1] = np.nan
    if n > 3:
        f[n - 1] = np.inf
    return f.reshape(shape)


def int_values(shape):
    n = int(np.prod(shape))
    return ((np.arange(n) * 7) % 5 - 2).astype(np.int64).reshape(shape)


def cat_values(shape, alphabet=('a', 'b', 'c')):
    n = int(np.prod(shape))
    return np.array([alphabet[(k * 2 + k // 3) % len(alphabet)] for k in range(n)]).reshape(shape)


def affine_matrix(ndim):
    m = np.eye(ndim + 1)
    for i in range(ndim):
        m[i, i] = 2.0 + i
        m[i, ndim] = 0.5 * (i + 1)
    if ndim >= 2:
        m[0, 1] = 1.0          # coupled axes
    return m


class Zoo(object):
    """A dataset `d` of the given shape with stored float (NaN/inf), int, categorical, derived, pixel and world
    attributes, inside a collection with a second dataset `o` of the same shape linked to it."""

    def __init__(self, shape, coords='affine', with_link=True, label='zoo'):
        from glue.core import Data, DataCollection
        from glue.core.coordinates import AffineCoordinates, IdentityCoordinates
        from glue.core.component_link import ComponentLink
        shape = tuple(int(x) for x in shape)
        self.shape = shape
        self.ndim = len(shape)
        kw = dict(f=float_values(shape), i=int_values(shape), c=cat_values(shape),
                  c2=cat_values(shape, ('x', 'y')))
        if coords == 'affine':
            kw['coords'] = AffineCoordinates(affine_matrix(self.ndim))
        elif coords == 'identity':
            kw['coords'] = IdentityCoordinates(n_dim=self.ndim)
        # narrow and non-numeric storage types (read under views by C04; carried through sessions by C02)
        kw['f32'] = float_values(shape).astype(np.float32)
        kw['i16'] = int_values(shape).astype(np.int16)
        kw['when'] = (np.datetime64('2021-03-04T05:06:07') + np.arange(int(np.prod(shape))) * np.timedelta64(90, 'm')).reshape(shape)
        self.d = Data(label=label, **kw)
        self.d['g'] = self.d.id['f'] * 2 + self.d.id['i']
        self.f, self.i, self.c, self.c2, self.g = (self.d.id[k] for k in ('f', 'i', 'c', 'c2', 'g'))
        self.pix = list(self.d.pixel_component_ids)
        self.wld = list(self.d.world_component_ids)
        self.o = None
        self.dc = None
        self.linked = None
        if with_link:
            self.o = Data(label=label + '_other', x=np.arange(int(np.prod(shape)), dtype=float).reshape(shape) * 3.0 + 1.0)
            self.dc = DataCollection([self.d, self.o])
            self.linked = self.o.id['x']
            # d reads o.x as f + 10 ; o reads d.f as x - 10
            self.dc.add_link(ComponentLink([self.f], self.linked, using=lambda v: v + 10.0, inverse=lambda v: v - 10.0))
            # an image whose two pixel axes are the LAST TWO axes of d in swapped order (other dimensionality for 3-d, other
            # axis numbering for 2-d): regions drawn on the image's pixel axes select elements of d through the links
            self.img = None
            if self.ndim >= 2:
                from glue.core.link_helpers import LinkSame
                self.img = Data(label=label + '_image', v=np.zeros((shape[-1], shape[-2])))
                self.dc.append(self.img)
                ip = list(self.img.pixel_component_ids)
                self.dc.add_link(LinkSame(self.pix[-1], ip[0]))
                self.dc.add_link(LinkSame(self.pix[-2], ip[1]))

    def attributes(self):
        """name -> ComponentID for every attribute kind readable from d."""
        out = {'stored_float': self.f, 'stored_int': self.i, 'categorical': self.c, 'derived': self.g,
               'stored_float32': self.d.id['f32'], 'stored_int16': self.d.id['i16'], 'datetime': self.d.id['when']}
        for k, p in enumerate(self.pix):
            out['pixel%d' % k] = p
        for k, w in enumerate(self.wld):
            out['world%d' % k] = w
        if self.linked is not None:
            out['linked'] = self.linked
        return out


def _mask_pattern(shape, k=3):
    n = int(np.prod(shape))
    return (np.arange(n) % k == 1).reshape(shape)


def selection_factories(z):
    """name -> zero-argument callable building a fresh elementary selection for zoo z (only kinds that are
    defined for z's dimensionality are included)."""
    from glue.core import subset as S
    from glue.core import roi as R
    import operator
    shape, nd = z.shape, z.ndim
    n = int(np.prod(shape))
    F = {}
    F['empty'] = lambda: S.SubsetState()
    F['ineq_gt_const'] = lambda: z.f > 0.25
    F['ineq_le_attr'] = lambda: S.InequalitySubsetState(z.i, z.f, operator.le)
    F['ineq_eq_int'] = lambda: z.i == 1
    F['ineq_ne'] = lambda: z.i != 0
    F['ineq_ge_derived'] = lambda: z.g >= 1.0
    F['ineq_lt_pixel'] = lambda: z.pix[-1] < 1
    F['ineq_cat_eq'] = lambda: S.InequalitySubsetState(z.c, 'a', operator.eq)
    if z.wld:
        F['ineq_gt_world'] = lambda: z.wld[0] > 2.4
    if z.linked is not None:
        F['ineq_gt_linked'] = lambda: z.linked > 10.0
    F['range'] = lambda: S.RangeSubsetState(-0.5, 2.0, att=z.f)
    F['range_int'] = lambda: S.RangeSubsetState(0, 1, att=z.i)
    F['multirange'] = lambda: S.MultiRangeSubsetState([(-1.0, -0.5), (1.5, 2.5)], att=z.f)
    F['mask'] = lambda: S.MaskSubsetState(_mask_pattern(shape), list(z.d.pixel_component_ids))
    F['slice'] = lambda: S.SliceSubsetState(z.d, [slice(0, shape[k], 2) if k == nd - 1 else slice(0, max(1, shape[k] - 1))
                                                   for k in range(nd)])
    F['slice_offset'] = lambda: S.SliceSubsetState(z.d, [slice(None)] * (nd - 1) + [slice(1, shape[-1], 2)])
    F['slice_partial'] = lambda: S.SliceSubsetState(z.d, [slice(None)] * (nd - 1) + [slice(shape[-1] - 1, shape[-1])])
    F['element'] = lambda: S.ElementSubsetState(indices=[0, n - 1])
    F['element_bound'] = lambda: S.ElementSubsetState(indices=[n // 2], data=z.d)
    F['category'] = lambda: S.CategorySubsetState(z.c, [0, 2])
    F['catroi'] = lambda: S.CategoricalROISubsetState(att=z.c, roi=R.CategoricalROI(['a', 'c']))
    if nd == 1:
        F['catroi2d'] = lambda: S.CategoricalROISubsetState2D({'a': {'x'}, 'b': {'x', 'y'}}, z.c, z.c2)
        F['catmultirange'] = lambda: S.CategoricalMultiRangeSubsetState({'a': [(-2.0, 0.6)], 'c': [(0.9, 5.0)]}, z.c, z.f)
    F['roi_rect_attrs'] = lambda: S.RoiSubsetState(xatt=z.f, yatt=z.i, roi=R.RectangularROI(-0.75, 1.25, -1.5, 1.5))
    F['roi_circle_attrs'] = lambda: S.RoiSubsetState(xatt=z.g, yatt=z.i, roi=R.CircularROI(1.0, 0.0, 2.2))
    F['roi_poly_attrs'] = lambda: S.RoiSubsetState(xatt=z.f, yatt=z.i,
                                                    roi=R.PolygonalROI([-1.2, 2.2, 2.2, -1.2], [-2.5, -2.5, 0.5, 1.5]))
    F['roi_xrange'] = lambda: S.RoiSubsetState(xatt=z.f, yatt=z.i, roi=R.XRangeROI(-0.6, 1.1))
    if nd >= 2:
        F['roi_rect_pixels'] = lambda: S.RoiSubsetState(xatt=z.pix[-1], yatt=z.pix[-2],
                                                        roi=R.RectangularROI(-0.5, 1.5, 0.5, 5.5))
        F['roi_ellipse_pixels'] = lambda: S.RoiSubsetState(xatt=z.pix[-1], yatt=z.pix[-2],
                                                           roi=R.EllipticalROI(1.0, 1.0, 1.2, 0.7))
    else:
        F['roi_rect_pixel_mixed'] = lambda: S.RoiSubsetState(xatt=z.pix[0], yatt=z.i, roi=R.RectangularROI(0.5, 5.5, -2.5, 0.5))
    try:
        from glue.core import roi_pretransforms as P
        small = R.RectangularROI(-0.02, 0.02, -0.04, 0.04)
        F['roi_pre_radian'] = lambda: S.RoiSubsetState(xatt=z.f, yatt=z.i, roi=R.RectangularROI(-0.02, 0.02, -2.5, 2.5),
                                                       pretransform=P.RadianTransform(coords=['x']))
        # chains as the scatter viewer builds them for full-sphere projections
        F['roi_pre_sphere_chain'] = lambda: S.RoiSubsetState(xatt=z.f, yatt=z.i, roi=small,
                                                             pretransform=P.FullSphereLongitudeTransform(next_transform=P.RadianTransform(coords=['x', 'y'])))
        F['roi_pre_radian_chain'] = lambda: S.RoiSubsetState(xatt=z.f, yatt=z.i, roi=R.RectangularROI(-0.05, 3.0, -0.04, 0.04),
                                                             pretransform=P.RadianTransform(coords=['y'], next_transform=P.FullSphereLongitudeTransform()))
        F['roi_pre_projection'] = lambda: S.RoiSubsetState(xatt=z.f, yatt=z.i, roi=R.RectangularROI(0.1, 0.6, 0.2, 0.9),
                                                           pretransform=P.ProjectionMplTransform('rectilinear', [-2.0, 3.0], [-3.0, 3.0], 'linear', 'linear'))
    except ImportError:
        pass
    if getattr(z, 'img', None) is not None:
        ip = list(z.img.pixel_component_ids)
        # x = the image's axis 1 (= d's second-to-last axis), y = the image's axis 0 (= d's last axis)
        F['roi_other_pixels'] = lambda: S.RoiSubsetState(xatt=ip[1], yatt=ip[0], roi=R.RectangularROI(-0.5, 0.5, 0.5, 5.5))
    F['roi_nd_2att'] = lambda: S.RoiSubsetStateNd(atts=[z.f, z.i], roi=R.RectangularROI(-0.75, 1.25, -1.5, 1.5))
    proj = np.array([[1.0, 0.0, 0.0, 0.0], [0.0, 1.0, 0.0, 0.0], [0.0, 0.0, 1.0, 0.0], [0.0, 0.0, 0.0, 1.0]])
    F['roi3d'] = lambda: S.RoiSubsetState3d(z.f, z.i, z.g, R.Projected3dROI(R.RectangularROI(-0.75, 1.75, -1.5, 1.5), proj))
    start = tuple(0 for _ in range(nd))
    F['floodfill'] = lambda: S.FloodFillSubsetState(z.d, z.i, start, 1.2)
    try:
        from glue.viewers.image.pixel_selection_subset_state import PixelSubsetState
        F['pixel'] = lambda: PixelSubsetState(z.d, [slice(None)] * (nd - 1) + [slice(0, 1)])
    except ImportError:
        pass
    try:
        from glue.core.parse import ParsedCommand, ParsedSubsetState
        F['parsed'] = lambda: ParsedSubsetState(ParsedCommand('{v} > 0', {'v': z.i}))
    except ImportError:
        pass
    return F


def same(a, b):
    """Exact equality of two arrays, NaN == NaN, same shape and (for strings) same text."""
    a = np.asarray(a)
    b = np.asarray(b)
    if a.shape != b.shape:
        return False
    if a.dtype.kind in 'fc' or b.dtype.kind in 'fc':
        try:
            return bool(np.array_equal(a.astype(float), b.astype(float), equal_nan=True))
        except (TypeError, ValueError):
            return bool(np.array_equal(a, b))
    return bool(np.array_equal(a, b))
