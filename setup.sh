#!/bin/sh
# Offline setup: byte-compile the harness and parse every specification with SANY.
set -e
cd "$(dirname "$0")"
/venv/bin/python -m compileall -q harness check >/dev/null
fail=0
for f in specs/*.tla; do
  out=$(cd specs && java -cp /opt/veriftools/tla/tla2tools.jar:/opt/veriftools/tla/CommunityModules-deps.jar tla2sany.SANY "$(basename "$f")" 2>&1) || true
  if echo "$out" | grep -q -E "Semantic errors|Parse Error|Fatal errors|Could not"; then
    echo "SANY failed on $f"; echo "$out" | tail -20; fail=1
  fi
done
mkdir -p evidence replays
exit $fail
