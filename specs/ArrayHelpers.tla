-------------------------------- MODULE ArrayHelpers --------------------------------
(* Requirement specification of the array helpers of glue.utils.array (property C20).

   Spec -> code (one Pick per configuration, exported with tlc -dump; expected values
   computed here):
     "combine"   combine_slices(v, s, n): the positions, within the view v, of the elements
                 chosen by both v and s, for EVERY pair of positive-step slices over every
                 length <= MaxLen
     "unbcast"   unbroadcast: shape after removing the broadcast (stride-0) dimensions, for
                 every shape and every set of broadcast axes
     "categ"     categorical arrays over a small alphabet: sorted unique categories and
                 codes with categories[codes] = values
   (view_shape is checked against Views.tla's result shapes by the same check.)

   Code -> spec (trace validation, Trace_Chunks.tla): the chunk lists actually returned by
   iterate_chunks / find_chunk_shape for every shape and limit are recorded and TLC
   evaluates ValidChunks on each record.                                                *)
EXTENDS Naturals, Sequences, FiniteSets, TLC

CONSTANTS MaxLen, MaxStep, MaxDim, MaxDimLen, Alphabet, MaxCat

VARIABLES cfg, exp, picked
vars == <<cfg, exp, picked>>

SliceIdx(b, e, s) == IF e > b THEN [k \in 1..((e - b + s - 1) \div s) |-> b + (k - 1) * s] ELSE <<>>
Range(q) == {q[i] : i \in DOMAIN q}

(* positions p (0-based) in the view such that view[p] is also chosen by sel *)
CombineExp(v, s) ==
    LET vi == SliceIdx(v.b, v.e, v.s)
        si == Range(SliceIdx(s.b, s.e, s.s)) IN
    {p - 1 : p \in {q \in DOMAIN vi : vi[q] \in si}}

Sl(b, e, s) == [b |-> b, e |-> e, s |-> s]
Slices(n) == {Sl(b, e, s) : b \in 0..n, e \in 0..n, s \in 1..MaxStep}

Shapes == UNION {[1..n -> 1..MaxDimLen] : n \in 1..MaxDim}

RECURSIVE SortedOf(_)
SortedOf(S) == IF S = {} THEN <<>> ELSE LET m == CHOOSE x \in S : \A y \in S : x <= y IN <<m>> \o SortedOf(S \ {m})
IndexOf(q, x) == CHOOSE i \in DOMAIN q : q[i] = x

Init == cfg = [kind |-> "init"] /\ exp = [kind |-> "init"] /\ picked = FALSE

PickCombine ==
    \E n \in 1..MaxLen : \E v \in Slices(n), s \in Slices(n) :
        /\ cfg' = [kind |-> "combine", n |-> n, v |-> v, s |-> s]
        /\ exp' = [kind |-> "combine", pos |-> CombineExp(v, s)]

PickUnbroadcast ==
    \E shape \in Shapes : \E axes \in SUBSET (1..Len(shape)) :
        /\ cfg' = [kind |-> "unbcast", shape |-> shape, axes |-> axes]
        /\ exp' = [kind |-> "unbcast", shape |-> [k \in 1..Len(shape) |-> IF k \in axes THEN 1 ELSE shape[k]]]

PickCategorical ==
    \E L \in 1..MaxCat : \E vals \in [1..L -> Alphabet] :
        LET cats == SortedOf(Range(vals)) IN
        /\ cfg' = [kind |-> "categ", vals |-> vals]
        /\ exp' = [kind |-> "categ", cats |-> cats, codes |-> [i \in 1..L |-> IndexOf(cats, vals[i]) - 1]]

Pick == ~picked /\ picked' = TRUE /\ (PickCombine \/ PickUnbroadcast \/ PickCategorical)
Next == Pick
Spec == Init /\ [][Next]_vars

(* sanity *)
Inv_CombineWithinView == (picked /\ cfg.kind = "combine") =>
    \A p \in exp.pos : p < Len(SliceIdx(cfg.v.b, cfg.v.e, cfg.v.s))
Inv_CodesPointBack == (picked /\ cfg.kind = "categ") =>
    \A i \in DOMAIN cfg.vals : exp.cats[exp.codes[i] + 1] = cfg.vals[i]

-----------------------------------------------------------------------------------------
(* requirement on a chunking: used by Trace_Chunks.tla on recorded outputs.
   chunks : sequence of chunks, a chunk = sequence (one per axis) of <<begin, end>>        *)
Points(shape) == {p \in [1..Len(shape) -> 0..(MaxDimLen + 4)] : \A k \in 1..Len(shape) : p[k] < shape[k]}
InChunk(p, c) == \A k \in DOMAIN p : c[k][1] <= p[k] /\ p[k] < c[k][2]
ChunkSize(c) == LET F[k \in 0..Len(c)] == IF k = 0 THEN 1 ELSE F[k - 1] * (c[k][2] - c[k][1]) IN F[Len(c)]
ValidChunks(shape, limit, chunks) ==
    /\ \A p \in Points(shape) : Cardinality({i \in DOMAIN chunks : InChunk(p, chunks[i])}) = 1     \* exactly once
    /\ \A i \in DOMAIN chunks : ChunkSize(chunks[i]) <= limit /\ ChunkSize(chunks[i]) >= 1        \* never larger than asked
    /\ \A i \in DOMAIN chunks : \A k \in DOMAIN shape : 0 <= chunks[i][k][1] /\ chunks[i][k][2] <= shape[k]
=============================================================================
