--------------------------------- MODULE Collection ---------------------------------
(* Requirement specification of DataCollection / SubsetGroup membership (property C06).

   Abstract state: the ordered collection, the ordered list of live subset groups, and per
   group its selection (a set of rows: every dataset of the model has the same rows, and
   selections are concretised as row-index selections that apply to every dataset), label
   and colour.  What C06 requires is a FUNCTION of that state:

       each dataset d in the collection carries exactly one subset per live group
           ExpSubsets(d) = Range(groups)              (as a bag: each exactly once)
       each live group lists exactly the datasets of the collection
           ExpMembers(g) = Range(coll)                (as a bag: each exactly once)
       every member shows the group's selection, label and colour

   The harness projects the real objects (dc.data, dc.subset_groups, d.subsets, g.subsets,
   masks, labels, colours) after every step and compares with these.  Membership is
   maintained by hub message handlers, so it is required when no hub delay block is open
   (delay = 0): DelayEnter / DelayExit are actions of this spec.                        *)
EXTENDS Naturals, Sequences, FiniteSets, TLC

CONSTANTS
    Data,        \* datasets that can be appended (strings)
    Fresh,       \* sequence of names for datasets created by Merge
    MaxGroups,   \* number of groups ever created
    Row,         \* rows of every dataset
    Sel,         \* the selections used by NewGroup / SetState (subset of SUBSET Row)
    Label,       \* labels used by SetLabel
    Color,       \* colours used by SetColor
    MaxDelay     \* nesting bound of hub delay blocks

VARIABLES
    coll,      \* sequence of datasets in the collection
    groups,    \* sequence of live group ids (1..MaxGroups, never reused)
    gstate,    \* group id -> selection (set of rows)
    glabel,    \* group id -> label ("" = default label "Subset <id>")
    gcolor,    \* group id -> colour ("" = default colour of the id)
    ngrp,      \* number of groups created so far
    nmerge,    \* number of merges so far
    delay,     \* open hub delay blocks
    act

cvars == <<coll, groups, gstate, glabel, gcolor, ngrp, nmerge, delay>>
vars  == <<cvars, act>>

Range(s) == {s[i] : i \in DOMAIN s}
RemoveSeq(s, x) == LET F[i \in 0..Len(s)] ==
                         IF i = 0 THEN <<>> ELSE IF s[i] = x THEN F[i - 1] ELSE Append(F[i - 1], s[i])
                   IN F[Len(s)]
AllData == Data \cup Range(Fresh)
Groups == 1..MaxGroups

(* what C06 requires, as a function of the abstract state *)
ExpSubsets(d) == Range(groups)
ExpMembers(g) == Range(coll)
Quiescent == delay = 0

-----------------------------------------------------------------------------------------
CInit ==
    /\ coll = <<>>
    /\ groups = <<>>
    /\ gstate = [g \in Groups |-> {}]
    /\ glabel = [g \in Groups |-> ""]
    /\ gcolor = [g \in Groups |-> ""]
    /\ ngrp = 0
    /\ nmerge = 0
    /\ delay = 0

(* effects (no `act`), reused by Commands.tla *)
Exists(d) == d \in Data \/ \E i \in 1..nmerge : Fresh[i] = d     \* merge results exist once created

AppendEff(d) ==
    /\ Exists(d)
    /\ d \notin Range(coll)
    /\ coll' = Append(coll, d)
    /\ UNCHANGED <<groups, gstate, glabel, gcolor, ngrp, nmerge, delay>>

RemoveEff(d) ==
    /\ d \in Range(coll)
    /\ coll' = RemoveSeq(coll, d)
    /\ UNCHANGED <<groups, gstate, glabel, gcolor, ngrp, nmerge, delay>>

NewGroupEff(sel) ==
    /\ ngrp < MaxGroups
    /\ ngrp' = ngrp + 1
    /\ groups' = Append(groups, ngrp + 1)
    /\ gstate' = [gstate EXCEPT ![ngrp + 1] = sel]
    /\ UNCHANGED <<coll, glabel, gcolor, nmerge, delay>>

RemoveGroupEff(g) ==
    /\ g \in Range(groups)
    /\ groups' = RemoveSeq(groups, g)
    /\ UNCHANGED <<coll, gstate, glabel, gcolor, ngrp, nmerge, delay>>

SetStateEff(g, sel) ==
    /\ g \in Range(groups)
    /\ gstate' = [gstate EXCEPT ![g] = sel]
    /\ UNCHANGED <<coll, groups, glabel, gcolor, ngrp, nmerge, delay>>

-----------------------------------------------------------------------------------------
A(op, d, e, g, sel, s) == [op |-> op, d |-> d, e |-> e, g |-> g, sel |-> sel, s |-> s]

Append_(d)      == AppendEff(d) /\ act' = A("Append", d, "-", 0, {}, "-")
Remove_(d)      == RemoveEff(d) /\ act' = A("Remove", d, "-", 0, {}, "-")
NewGroup(sel)   == NewGroupEff(sel) /\ act' = A("NewGroup", "-", "-", ngrp + 1, sel, "-")
RemoveGroup(g)  == RemoveGroupEff(g) /\ act' = A("RemoveGroup", "-", "-", g, {}, "-")
SetState(g, sel) == SetStateEff(g, sel) /\ gstate[g] # sel /\ act' = A("SetState", "-", "-", g, sel, "-")

SetLabel(g, lab) ==
    /\ g \in Range(groups)
    /\ glabel[g] # lab
    /\ glabel' = [glabel EXCEPT ![g] = lab]
    /\ act' = A("SetLabel", "-", "-", g, {}, lab)
    /\ UNCHANGED <<coll, groups, gstate, gcolor, ngrp, nmerge, delay>>

SetColor(g, col) ==
    /\ g \in Range(groups)
    /\ gcolor[g] # col
    /\ gcolor' = [gcolor EXCEPT ![g] = col]
    /\ act' = A("SetColor", "-", "-", g, {}, col)
    /\ UNCHANGED <<coll, groups, gstate, glabel, ngrp, nmerge, delay>>

(* merge: the master dataset is appended, then the sources leave *)
Merge(a, b) ==
    /\ a \in Range(coll)
    /\ b \in Range(coll)
    /\ a # b
    /\ nmerge < Len(Fresh)
    /\ nmerge' = nmerge + 1
    /\ coll' = RemoveSeq(RemoveSeq(Append(coll, Fresh[nmerge + 1]), a), b)
    /\ act' = A("Merge", a, b, 0, {}, Fresh[nmerge + 1])
    /\ UNCHANGED <<groups, gstate, glabel, gcolor, ngrp, delay>>

Clear ==
    /\ coll # <<>>
    /\ coll' = <<>>
    /\ act' = A("Clear", "-", "-", 0, {}, "-")
    /\ UNCHANGED <<groups, gstate, glabel, gcolor, ngrp, nmerge, delay>>

(* save the session and continue with the restored one: identity on the abstract state *)
SaveRestore ==
    /\ delay = 0
    /\ act' = A("SaveRestore", "-", "-", 0, {}, "-")
    /\ UNCHANGED cvars

DelayEnter ==
    /\ delay < MaxDelay
    /\ delay' = delay + 1
    /\ act' = A("DelayEnter", "-", "-", 0, {}, "-")
    /\ UNCHANGED <<coll, groups, gstate, glabel, gcolor, ngrp, nmerge>>

DelayExit ==
    /\ delay > 0
    /\ delay' = delay - 1
    /\ act' = A("DelayExit", "-", "-", 0, {}, "-")
    /\ UNCHANGED <<coll, groups, gstate, glabel, gcolor, ngrp, nmerge>>

Init == CInit /\ act = A("Init", "-", "-", 0, {}, "-")

Next ==
    \/ \E d \in AllData : Append_(d)
    \/ \E d \in AllData : Remove_(d)
    \/ \E sel \in Sel : NewGroup(sel)
    \/ \E g \in Groups : RemoveGroup(g)
    \/ \E g \in Groups, sel \in Sel : SetState(g, sel)
    \/ \E g \in Groups, lab \in Label : SetLabel(g, lab)
    \/ \E g \in Groups, col \in Color : SetColor(g, col)
    \/ \E a \in AllData, b \in AllData : Merge(a, b)
    \/ Clear
    \/ SaveRestore
    \/ DelayEnter
    \/ DelayExit

Spec == Init /\ [][Next]_vars

-----------------------------------------------------------------------------------------
TypeOK ==
    /\ Range(coll) \subseteq AllData
    /\ Len(coll) = Cardinality(Range(coll))             \* no dataset twice
    /\ Range(groups) \subseteq 1..ngrp
    /\ Len(groups) = Cardinality(Range(groups))

\* removed groups never come back; a group id is never reused
Prop_GroupsNeverReused == [][\A g \in Groups : (g <= ngrp /\ g \notin Range(groups)) => g \notin Range(groups')]_vars

\* witnesses (expected to be violated)
Witness_ReAppend == ~(act.op = "Append" /\ ngrp >= 1 /\ Len(groups) < ngrp /\ Len(coll) >= 2)
=============================================================================
