--------------------------------- MODULE CollectionImpl ---------------------------------
(* Implementation-shaped specification of subset-group membership (property C06).

   Collection.tla states WHAT must hold; this module describes HOW glue maintains it, at the grain of
   the code, so that TLC explores the message orders the requirement spec abstracts from:

     DataCollection.append(d)     appends to the list, then broadcasts DataCollectionAddMessage(d)
     DataCollection.remove(d)     removes from the list, then broadcasts DataCollectionDeleteMessage(d)
     new_subset_group()           inside hub.delay_callbacks(): appends the group, SubsetGroup.register creates one
                                  subset for every dataset in the collection and subscribes the group to both messages
     remove_subset_group(g)       inside hub.delay_callbacks(): deletes g's subsets, unsubscribes the group
     SubsetGroup._add_data(d)     (handler)  adds a subset for d          - FixAdd: unless the group already covers d
     SubsetGroup._remove_data(d)  (handler)  drops the subset from the group - FixRemove: and deletes it from the dataset
     hub.delay_callbacks()        while any block is open broadcasts are queued; the queue is delivered, in order,
                                  to the groups subscribed AT THAT TIME, when the outermost block closes

   Membership is kept in two places, as in the code: dsub[d] (Data.subsets: the groups of d's grouped subsets, a bag)
   and gsub[g] (SubsetGroup.subsets: the datasets of the group's subsets, a bag).  Both are compared with the real
   objects after EVERY step of a replayed behaviour, also while a delay block is open (where Collection.tla says nothing).

   FixAdd / FixRemove = FALSE is the code at the pinned commit: TLC refutes Inv_Membership for each (the two defects
   repaired by 8f5e16f and a26012b); with both TRUE the invariant holds.                                              *)
EXTENDS Naturals, Sequences, FiniteSets, TLC

CONSTANTS Data, MaxGroups, MaxDelay, MaxOps, FixAdd, FixRemove

VARIABLES coll, groups, ngrp, dsub, gsub, queue, delay, nops, act
vars == <<coll, groups, ngrp, dsub, gsub, queue, delay, nops, act>>

Range(s) == {s[i] : i \in DOMAIN s}
Without(s, x) == SelectSeq(s, LAMBDA y : y # x)
Count(s, x) == Cardinality({i \in DOMAIN s : s[i] = x})
Groups == 1..MaxGroups
A(op, d, g) == [op |-> op, d |-> d, g |-> g]
Msg(k, d) == [k |-> k, d |-> d]

(* the handlers, applied to the pair (dsub, gsub) for the groups subscribed now *)
RECURSIVE AddTo(_, _, _)
AddTo(ds, gs, todo) ==      \* todo: sequence of <<g, d>>
    IF todo = <<>> THEN <<ds, gs>>
    ELSE LET g == Head(todo)[1]
             d == Head(todo)[2] IN
         IF FixAdd /\ d \in Range(gs[g])
         THEN AddTo(ds, gs, Tail(todo))
         ELSE AddTo([ds EXCEPT ![d] = Append(@, g)], [gs EXCEPT ![g] = Append(@, d)], Tail(todo))
GroupSeq == SelectSeq([i \in 1..MaxGroups |-> i], LAMBDA g : g \in groups)          \* live groups, in order of creation
OnAdd(ds, gs, d) == AddTo(ds, gs, [i \in DOMAIN GroupSeq |-> <<GroupSeq[i], d>>])
OnDel(ds, gs, d) ==
    <<IF FixRemove THEN [ds EXCEPT ![d] = SelectSeq(@, LAMBDA g : ~(g \in groups /\ d \in Range(gs[g])))] ELSE ds,
      [g \in Groups |-> IF g \in groups THEN Without(gs[g], d) ELSE gs[g]]>>
Deliver(ds, gs, m) == IF m.k = "add" THEN OnAdd(ds, gs, m.d) ELSE OnDel(ds, gs, m.d)
RECURSIVE Flush(_, _, _)
Flush(ds, gs, q) == IF q = <<>> THEN <<ds, gs>> ELSE LET r == Deliver(ds, gs, Head(q)) IN Flush(r[1], r[2], Tail(q))

(* broadcast(m): delivered now, or queued while a delay block is open *)
Broadcast(m) ==
    IF delay > 0
    THEN queue' = Append(queue, m) /\ UNCHANGED <<dsub, gsub>>
    ELSE LET r == Deliver(dsub, gsub, m) IN dsub' = r[1] /\ gsub' = r[2] /\ UNCHANGED queue

Step == nops < MaxOps /\ nops' = nops + 1

Init ==
    /\ coll = <<>> /\ groups = {} /\ ngrp = 0
    /\ dsub = [d \in Data |-> <<>>] /\ gsub = [g \in Groups |-> <<>>]
    /\ queue = <<>> /\ delay = 0 /\ nops = 0 /\ act = A("Init", "-", 0)

Append_(d) ==
    /\ Step /\ d \notin Range(coll)
    /\ coll' = Append(coll, d)
    /\ Broadcast(Msg("add", d))
    /\ act' = A("Append", d, 0) /\ UNCHANGED <<groups, ngrp, delay>>

Remove_(d) ==
    /\ Step /\ d \in Range(coll)
    /\ coll' = Without(coll, d)
    /\ Broadcast(Msg("del", d))
    /\ act' = A("Remove", d, 0) /\ UNCHANGED <<groups, ngrp, delay>>

(* new_subset_group opens its own delay block; nothing it does is a DataCollection message, so when it is the outermost
   block its closing flushes an empty queue *)
NewGroup ==
    /\ Step /\ ngrp < MaxGroups
    /\ ngrp' = ngrp + 1
    /\ groups' = groups \cup {ngrp + 1}
    /\ gsub' = [gsub EXCEPT ![ngrp + 1] = coll]
    /\ dsub' = [d \in Data |-> IF d \in Range(coll) THEN Append(dsub[d], ngrp + 1) ELSE dsub[d]]
    /\ act' = A("NewGroup", "-", ngrp + 1) /\ UNCHANGED <<coll, queue, delay>>

RemoveGroup(g) ==
    /\ Step /\ g \in groups
    /\ groups' = groups \ {g}
    /\ dsub' = [d \in Data |-> IF d \in Range(gsub[g]) THEN Without(dsub[d], g) ELSE dsub[d]]      \* s.delete() for s in g.subsets
    /\ UNCHANGED gsub                                                                              \* the dead group keeps its list
    /\ act' = A("RemoveGroup", "-", g) /\ UNCHANGED <<coll, ngrp, queue, delay>>

DelayEnter ==
    /\ Step /\ delay < MaxDelay /\ delay' = delay + 1
    /\ act' = A("DelayEnter", "-", 0) /\ UNCHANGED <<coll, groups, ngrp, dsub, gsub, queue>>

DelayExit ==
    /\ Step /\ delay > 0 /\ delay' = delay - 1
    /\ IF delay = 1
       THEN LET r == Flush(dsub, gsub, queue) IN dsub' = r[1] /\ gsub' = r[2] /\ queue' = <<>>
       ELSE UNCHANGED <<dsub, gsub, queue>>
    /\ act' = A("DelayExit", "-", 0) /\ UNCHANGED <<coll, groups, ngrp>>

Next == \/ \E d \in Data : Append_(d) \/ Remove_(d)
        \/ NewGroup
        \/ \E g \in Groups : RemoveGroup(g)
        \/ DelayEnter \/ DelayExit
Spec == Init /\ [][Next]_vars

(* what Collection.tla requires, on the implementation's own bookkeeping, whenever the hub is quiet *)
Quiet == delay = 0 /\ queue = <<>>
Inv_Membership ==
    Quiet => /\ \A d \in Range(coll), g \in groups : Count(dsub[d], g) = 1 /\ Count(gsub[g], d) = 1
             /\ \A d \in Range(coll) : Range(dsub[d]) \subseteq groups                      \* no others
             /\ \A g \in groups : Range(gsub[g]) \subseteq Range(coll)
             /\ \A d \in Data \ Range(coll) : Range(dsub[d]) \cap groups = {}               \* removed datasets keep no live membership
Inv_QueueOnlyWhileDelayed == delay = 0 => queue = <<>>
=============================================================================
