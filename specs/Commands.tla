---------------------------------- MODULE Commands ----------------------------------
(* Requirement specification of the command stack (property C13), on top of Collection.tla.

   A command record on the `done` stack carries the snapshot `pre` of the session state
   taken before it ran.  The requirement is then generic:
       Undo  restores the snapshot       (collection, groups, selections, edit-subset choice)
       Redo  re-executes the command from the restored state, which by determinism gives
             the state after the original execution
       Do    clears the redo history and keeps at most MaxUndo commands.
   Commands are the four classes of glue.core.command that act on the collection:
   AddData, RemoveData, ApplySubsetState (with every override mode) and ApplyROI.
   Direct (non-command) mutations are allowed only while both stacks are empty: "what it
   was before the command" is not defined when foreign mutations interleave.            *)
EXTENDS Collection

CONSTANTS
    Leaf,       \* selections applied by commands (subset of SUBSET Row)
    Mode,       \* edit modes
    MaxUndo,    \* bound of the undo history (glue.core.command.MAX_UNDO)
    CmdKinds,   \* command classes used (subset of {"AddData", "RemoveData", "ApplySubsetState", "ApplyROI"})
    Setup       \* TRUE: direct set-up actions and session choices are explored too

VARIABLES
    edit,       \* sequence of group ids: the edit-subset choice
    mode,       \* the session's edit mode
    done,       \* sequence of [c |-> command, pre |-> snapshot]
    undone      \* sequence of commands

svars == <<cvars, edit, mode, done, undone>>
allvars == <<svars, act>>

Snap == [coll |-> coll, groups |-> groups, gstate |-> gstate, edit |-> edit]

Cmd(k, d, leaf, ov) == [k |-> k, d |-> d, leaf |-> leaf, ov |-> ov]
B(op, c, e) == [op |-> op, c |-> c, e |-> e]
NoCmd == Cmd("-", "-", {}, "-")

Combine(m, new, old) ==
    CASE m = "Replace" -> new
      [] m = "New"     -> new
      [] m = "And"     -> new \cap old
      [] m = "Or"      -> new \cup old
      [] m = "Xor"     -> (new \ old) \cup (old \ new)
      [] m = "AndNot"  -> old \ new

(* effect of the commands on the session state *)
EffMode(c) == IF c.ov # "none" THEN c.ov
              ELSE IF edit = <<>> /\ c.k = "ApplySubsetState" THEN "Replace"
              ELSE mode

Effect(c) ==
    CASE c.k = "AddData" ->
            /\ coll' = IF c.d \in Range(coll) THEN coll ELSE Append(coll, c.d)
            /\ UNCHANGED <<groups, gstate, glabel, gcolor, ngrp, nmerge, delay, edit>>
      [] c.k = "RemoveData" ->
            /\ coll' = RemoveSeq(coll, c.d)
            /\ UNCHANGED <<groups, gstate, glabel, gcolor, ngrp, nmerge, delay, edit>>
      [] c.k \in {"ApplySubsetState", "ApplyROI"} ->
            IF edit = <<>> \/ EffMode(c) = "New"
            THEN /\ ngrp < MaxGroups
                 /\ ngrp' = ngrp + 1
                 /\ groups' = Append(groups, ngrp + 1)
                 /\ gstate' = [gstate EXCEPT ![ngrp + 1] = c.leaf]
                 /\ edit' = <<ngrp + 1>>
                 /\ UNCHANGED <<coll, glabel, gcolor, nmerge, delay>>
            ELSE /\ gstate' = [g \in Groups |-> IF g \in Range(edit)
                                                 THEN Combine(EffMode(c), c.leaf, gstate[g])
                                                 ELSE gstate[g]]
                 /\ UNCHANGED <<coll, groups, glabel, gcolor, ngrp, nmerge, delay, edit>>

LastN(s, n) == IF Len(s) <= n THEN s ELSE SubSeq(s, Len(s) - n + 1, Len(s))

Do(c) ==
    /\ Effect(c)
    /\ done' = LastN(Append(done, [c |-> c, pre |-> Snap]), MaxUndo)
    /\ undone' = <<>>
    /\ act' = B("Do", c, <<>>)
    /\ UNCHANGED mode

Undo ==
    /\ done # <<>>
    /\ LET r == done[Len(done)] IN
         /\ coll' = r.pre.coll
         /\ groups' = r.pre.groups
         /\ gstate' = [g \in Groups |-> IF g \in Range(r.pre.groups) THEN r.pre.gstate[g] ELSE gstate[g]]
         /\ edit' = r.pre.edit
         /\ undone' = Append(undone, r.c)
         /\ done' = SubSeq(done, 1, Len(done) - 1)
    /\ act' = B("Undo", NoCmd, <<>>)
    /\ UNCHANGED <<glabel, gcolor, ngrp, nmerge, delay, mode>>

Redo ==
    /\ undone # <<>>
    /\ LET c == undone[Len(undone)] IN
         /\ Effect(c)
         /\ done' = Append(done, [c |-> c, pre |-> Snap])
         /\ undone' = SubSeq(undone, 1, Len(undone) - 1)
    /\ act' = B("Redo", NoCmd, <<>>)
    /\ UNCHANGED mode

(* session choices and direct set-up, only while there is no history *)
Clean == done = <<>> /\ undone = <<>>

SetMode(m) ==
    /\ mode # m
    /\ mode' = m
    /\ act' = B("SetMode", Cmd("-", "-", {}, m), <<>>)
    /\ UNCHANGED <<cvars, edit, done, undone>>

EditChoices == {<<>>} \cup {<<g>> : g \in Range(groups)} \cup
               {<<g, h>> : <<g, h>> \in {p \in Range(groups) \X Range(groups) : p[1] < p[2]}}

SetEdit(e) ==
    /\ Clean
    /\ e # edit
    /\ edit' = e
    /\ act' = B("SetEdit", NoCmd, e)
    /\ UNCHANGED <<cvars, mode, done, undone>>

SetupAppend(d) ==
    /\ Clean
    /\ AppendEff(d)
    /\ act' = B("SetupAppend", Cmd("-", d, {}, "-"), <<>>)
    /\ UNCHANGED <<edit, mode, done, undone>>

SetupNewGroup(sel) ==
    /\ Clean
    /\ NewGroupEff(sel)
    /\ act' = B("SetupNewGroup", Cmd("-", "-", sel, "-"), <<>>)
    /\ UNCHANGED <<edit, mode, done, undone>>

AllCommands ==
    {Cmd("AddData", d, {}, "none") : d \in Data} \cup
    {Cmd("RemoveData", d, {}, "none") : d \in Data} \cup
    {Cmd("ApplySubsetState", "-", l, ov) : l \in Leaf, ov \in Mode \cup {"none"}} \cup
    {Cmd("ApplyROI", "-", l, "none") : l \in Leaf}
Commands == {c \in AllCommands : c.k \in CmdKinds}

SInit ==
    /\ CInit
    /\ edit = <<>>
    /\ mode = "Replace"
    /\ done = <<>>
    /\ undone = <<>>
    /\ act = B("Init", NoCmd, <<>>)

SNext ==
    \/ \E c \in Commands : Do(c)
    \/ Undo
    \/ Redo
    \/ Setup /\ \E m \in Mode : SetMode(m)
    \/ Setup /\ \E e \in EditChoices : SetEdit(e)
    \/ Setup /\ \E d \in Data : SetupAppend(d)
    \/ Setup /\ \E sel \in Leaf : SetupNewGroup(sel)

SSpec == SInit /\ [][SNext]_allvars

-----------------------------------------------------------------------------------------
(* C13 on the specification itself *)
STypeOK ==
    /\ TypeOK
    /\ Range(edit) \subseteq Range(groups)
    /\ Len(done) <= MaxUndo

\* undo right after do restores the snapshot; redo right after undo restores the post state
Prop_UndoRestores ==
    [][(act'.op = "Undo") => (coll' = done[Len(done)].pre.coll /\ groups' = done[Len(done)].pre.groups
                              /\ edit' = done[Len(done)].pre.edit)]_allvars
Prop_DoClearsRedo == [][(act'.op = "Do") => undone' = <<>>]_allvars

Witness_UndoRedo == ~(act.op = "Redo" /\ Len(done) >= 2 /\ Len(groups) >= 2)
=============================================================================
