----------------------------------- MODULE Coords -----------------------------------
(* Requirement specification of world coordinates under affine transformations (C15).

   A configuration is an integer affine map in n = 1..3 dimensions: matrix M (entries from
   the constant Entries, det # 0, so that an inverse exists) and translation T, in the
   coordinate order (x, y, z) used by AffineCoordinates (the reverse of the array axis
   order), together with an array shape.  TLC computes, integer-exactly,
       exp.world[k]  for every world attribute k (array-axis order) the value at every
                     array position, in C order:  W_i(p) = SUM_j M[i][j] * p_j + T[i]
       exp.dep[k]    the pixel axes (array order) the world attribute k really depends on
   The harness requires: the world attributes equal exp.world (whole array and views); the
   automatically created pixel->world links compute the same; the world->pixel links give
   back the pixel grid within 1e-9; and broadcasting shortcuts never change a value
   (a world attribute varies along exactly the axes of exp.dep).                         *)
EXTENDS Integers, Sequences, FiniteSets, TLC

CONSTANTS MaxDim, Entries, Shapes3, Trans

VARIABLES cfg, exp, picked
vars == <<cfg, exp, picked>>

Mats(n) == [1..n -> [1..n -> Entries]]

Det(M, n) ==
    IF n = 1 THEN M[1][1]
    ELSE IF n = 2 THEN M[1][1] * M[2][2] - M[1][2] * M[2][1]
    ELSE M[1][1] * (M[2][2] * M[3][3] - M[2][3] * M[3][2])
       - M[1][2] * (M[2][1] * M[3][3] - M[2][3] * M[3][1])
       + M[1][3] * (M[2][1] * M[3][2] - M[2][2] * M[3][1])

ShapeFor(n) == SubSeq(Shapes3, 1, n)          \* array-axis order

RECURSIVE Stride(_, _)
Stride(shape, k) == IF k = Len(shape) THEN 1 ELSE shape[k + 1] * Stride(shape, k + 1)
Size(shape) == shape[1] * Stride(shape, 1)
(* array index along axis k (1-based axis, 0-based index) of flat C-order position f *)
Idx(shape, f, k) == (f \div Stride(shape, k)) % shape[k]

(* coordinate axis j (x = 1) is array axis n + 1 - j *)
PixCoord(shape, f, j) == Idx(shape, f, Len(shape) + 1 - j)

Sum(F, n) == LET S[k \in 0..n] == IF k = 0 THEN 0 ELSE S[k - 1] + F[k] IN S[n]

WorldAt(M, T, shape, f, i) == Sum([j \in 1..Len(shape) |-> M[i][j] * PixCoord(shape, f, j)], Len(shape)) + T[i]

Exp(M, T, shape) ==
    LET n == Len(shape) IN
    [world |-> [k \in 1..n |-> [f \in 1..Size(shape) |-> WorldAt(M, T, shape, f - 1, n + 1 - k)]],
     dep |-> [k \in 1..n |-> {a \in 1..n : M[n + 1 - k][n + 1 - a] # 0}]]

Init == cfg = [n |-> 0] /\ exp = [n |-> 0] /\ picked = FALSE

Pick ==
    /\ ~picked
    /\ picked' = TRUE
    /\ \E n \in 1..MaxDim : \E M \in Mats(n) :
         /\ Det(M, n) # 0
         /\ LET T == SubSeq(Trans, 1, n) IN
              /\ cfg' = [n |-> n, M |-> M, T |-> T, shape |-> ShapeFor(n)]
              /\ exp' = Exp(M, T, ShapeFor(n))

Next == Pick
Spec == Init /\ [][Next]_vars

(* sanity: a world attribute varies only along the axes it depends on *)
Inv_DepSound == picked =>
    \A k \in 1..cfg.n : \A f, g \in 1..Size(cfg.shape) :
        (\A a \in exp.dep[k] : Idx(cfg.shape, f - 1, a) = Idx(cfg.shape, g - 1, a)) => exp.world[k][f] = exp.world[k][g]
=============================================================================
