----------------------------------- MODULE DataPickers -----------------------------------
(* Dataset pickers mirror the collection (property C18, part 3): DataCollectionComboHelper and
   ManualDataComboHelper.

   Abstract state: the ordered collection, the datasets handed to the manual picker (in the
   order they were appended), the display label of every dataset, the two selections and the
   number of open hub delay blocks.  Required whenever no delay block is open:
       collection picker   choices = the datasets of the collection, in order
       manual picker       choices = the appended datasets that are still in the collection, in order
       both                the selection is one of the choices, or nothing exactly when there is none;
                           a selection that is still a choice is kept; the displayed names are the
                           current labels
   While a delay block is open the pickers may lag (their updates are hub messages); everything
   must hold again when the last block closes.                                               *)
EXTENDS Naturals, Sequences, FiniteSets, TLC

CONSTANTS Data, Labels, MaxDelay, MaxOps

VARIABLES coll, mdata, label, csel, msel, delay, nops, act
vars == <<coll, mdata, label, csel, msel, delay, nops, act>>

Range(s) == {s[i] : i \in DOMAIN s}
Without(s, x) == SelectSeq(s, LAMBDA y : y # x)
A(op, d, x) == [op |-> op, d |-> d, x |-> x]
None == "-"

CChoices == coll
MChoices == SelectSeq(mdata, LAMBDA d : d \in Range(coll))
(* the selection after a change of the choices: kept when still a choice, otherwise free ("?": any choice) *)
Fix(sel, ch) == IF sel \in Range(ch) THEN sel ELSE IF ch = <<>> THEN None ELSE "?"
Step == nops < MaxOps /\ nops' = nops + 1

Init == coll = <<>> /\ mdata = <<>> /\ label = [d \in Data |-> d] /\ csel = None /\ msel = None /\ delay = 0 /\ nops = 0
        /\ act = A("Init", None, None)

Append_(d) == /\ Step /\ d \notin Range(coll) /\ coll' = Append(coll, d)
              /\ csel' = Fix(csel, coll') /\ msel' = Fix(msel, SelectSeq(mdata, LAMBDA x : x \in Range(coll')))
              /\ act' = A("Append", d, None) /\ UNCHANGED <<mdata, label, delay>>
(* a dataset that leaves the collection is forgotten by the manual picker: appending it to the collection again does
   not bring it back *)
Remove_(d) == /\ Step /\ d \in Range(coll) /\ coll' = Without(coll, d) /\ mdata' = Without(mdata, d)
              /\ csel' = Fix(csel, coll') /\ msel' = Fix(msel, SelectSeq(mdata', LAMBDA x : x \in Range(coll')))
              /\ act' = A("Remove", d, None) /\ UNCHANGED <<label, delay>>
MAppend(d) == /\ Step /\ delay = 0 /\ d \in Range(coll) /\ d \notin Range(mdata) /\ mdata' = Append(mdata, d)
              /\ msel' = Fix(msel, SelectSeq(mdata', LAMBDA x : x \in Range(coll)))
              /\ act' = A("ManualAppend", d, None) /\ UNCHANGED <<coll, label, csel, delay>>
MRemove(d) == /\ Step /\ delay = 0 /\ d \in Range(mdata) /\ mdata' = Without(mdata, d)
              /\ msel' = Fix(msel, SelectSeq(mdata', LAMBDA x : x \in Range(coll)))
              /\ act' = A("ManualRemove", d, None) /\ UNCHANGED <<coll, label, csel, delay>>
Relabel(d, l) == /\ Step /\ label[d] # l /\ label' = [label EXCEPT ![d] = l]
                 /\ act' = A("Relabel", d, l) /\ UNCHANGED <<coll, mdata, csel, msel, delay>>
SelectC(d) == /\ Step /\ delay = 0 /\ d \in Range(CChoices) /\ csel' = d
              /\ act' = A("SelectC", d, None) /\ UNCHANGED <<coll, mdata, label, msel, delay>>
SelectM(d) == /\ Step /\ delay = 0 /\ d \in Range(MChoices) /\ msel' = d
              /\ act' = A("SelectM", d, None) /\ UNCHANGED <<coll, mdata, label, csel, delay>>
DelayEnter == /\ Step /\ delay < MaxDelay /\ delay' = delay + 1 /\ act' = A("DelayEnter", None, None)
              /\ UNCHANGED <<coll, mdata, label, csel, msel>>
DelayExit == /\ Step /\ delay > 0 /\ delay' = delay - 1 /\ act' = A("DelayExit", None, None)
             /\ UNCHANGED <<coll, mdata, label, csel, msel>>

Next == \/ \E d \in Data : Append_(d) \/ Remove_(d) \/ MAppend(d) \/ MRemove(d) \/ SelectC(d) \/ SelectM(d)
        \/ \E d \in Data, l \in Labels : Relabel(d, l)
        \/ DelayEnter \/ DelayExit
Spec == Init /\ [][Next]_vars

SelOK(sel, ch) == sel = "?" \/ (IF ch = <<>> THEN sel = None ELSE sel \in Range(ch))
Inv_SelectionsAreChoices == SelOK(csel, CChoices) /\ SelOK(msel, MChoices)
Inv_ManualWithinCollection == Range(MChoices) \subseteq Range(coll)
=============================================================================
