--------------------------------- MODULE DataStruct ---------------------------------
(* Requirement specification of the structure of one dataset and of its announcements
   (property C17), including the dependency structure of derived attributes (the history
   half of property C14).

   Abstract state: the ORDERED list of components, each [n |-> name, k |-> kind] with kind
   main / derived / pixel / world, the coordinate kind, the shape variant, the label and
   whether the dataset has a hub.  Derived attributes depend on other attributes
   (constant Deps); removing an attribute removes every attribute that depends on it,
   directly or transitively, and nothing else.

   `ann` states what the LAST call must have announced on the hub:
       ann.spec   set of <<kind, component>>: component-specific announcements, required
                  EXACTLY (add / remove / rename / reorder / replaced)
       ann.gen    generic announcements required AT LEAST once (ComponentsChanged,
                  NumericalDataChanged, DataUpdate(label))
       ann.quiet  TRUE: the call changed nothing (or raised): NOTHING may be announced
       ann.raises TRUE: the call must raise and leave the dataset unchanged
   The harness checks in addition, on the real object after every step, the structural
   clauses that do not depend on the history: every component has the dataset's shape, one
   pixel attribute per dimension, one world attribute per dimension iff coordinates are
   set, identifiers unique, lookup by name returns the unique match or nothing.        *)
EXTENDS Naturals, Sequences, FiniteSets, TLC

CONSTANTS
    Main,       \* names of stored attributes that can be added
    Derived,    \* names of derived attributes
    Deps,       \* Deps[n] : set of names a derived attribute n is computed from
    NDim,       \* dimensionality (pixel attributes p1..pNDim, world attributes w1..wNDim)
    Coords,     \* coordinate kinds, e.g. {"none", "identity", "affine"}
    Labels,     \* dataset labels
    DupIds,     \* identities of attributes added under a label that is already in use
    DupOf       \* names whose label is reused by AddDup

VARIABLES
    comps,    \* sequence of [n, k]
    coords,
    shape,    \* "s1" | "s2" (same dimensionality, different lengths)
    label,
    hub,      \* BOOLEAN: registered to a hub (inside a collection)
    renamed,  \* set of names that were re-identified / renamed (each at most once)
    labels,   \* name -> display label (several attributes may share a label)
    ann,
    act

svars == <<comps, coords, shape, label, hub, renamed, labels>>
vars == <<svars, ann, act>>

Range(s) == {s[i] : i \in DOMAIN s}
Names == {c.n : c \in Range(comps)}
AllNames == Main \cup Derived \cup DupIds \cup {m \o "2" : m \in Main} \cup {"n1"} \cup {"p" \o ToString(i) : i \in 1..NDim} \cup {"w" \o ToString(i) : i \in 1..NDim}
C(n, k) == [n |-> n, k |-> k]
Pix == [i \in 1..NDim |-> C("p" \o ToString(i), "pixel")]
Wld == [i \in 1..NDim |-> C("w" \o ToString(i), "world")]

(* lookup by name: the unique match among stored attributes, else among derived, else among coordinate
   attributes; nothing when the first class that has a match has several *)
LabelsInUse == {labels[n] : n \in Names}
Matches(l, k) == {c.n : c \in {x \in Range(comps) : x.k \in k /\ labels[x.n] = l}}
Lookup(l) == IF Matches(l, {"main"}) # {} THEN (IF Cardinality(Matches(l, {"main"})) = 1 THEN CHOOSE n \in Matches(l, {"main"}) : TRUE ELSE "none")
             ELSE IF Matches(l, {"derived"}) # {} THEN (IF Cardinality(Matches(l, {"derived"})) = 1 THEN CHOOSE n \in Matches(l, {"derived"}) : TRUE ELSE "none")
             ELSE IF Matches(l, {"pixel", "world"}) # {} THEN (IF Cardinality(Matches(l, {"pixel", "world"})) = 1 THEN CHOOSE n \in Matches(l, {"pixel", "world"}) : TRUE ELSE "none")
             ELSE "none"

(* everything that (transitively) depends on name n, among the present derived attributes *)
RECURSIVE Dependents(_, _)
Dependents(S, present) ==
    LET T == S \cup {d \in present \cap Derived : Deps[d] \cap S # {}} IN
    IF T = S THEN S ELSE Dependents(T, present)
Closure(n) == Dependents({n}, Names)
HasDependents(n) == Closure(n) # {n}

Ann(spec, gen, quiet, raises) == [spec |-> spec, gen |-> gen, quiet |-> quiet, raises |-> raises]
Quiet == Ann({}, {}, TRUE, FALSE)
Raises == Ann({}, {}, TRUE, TRUE)
A(op, n, m) == [op |-> op, n |-> n, m |-> m]

-----------------------------------------------------------------------------------------
Init ==
    /\ comps = Pix \o <<C("a", "main")>>
    /\ coords = "none"
    /\ shape = "s1"
    /\ label = "L1"
    /\ hub = FALSE
    /\ renamed = {}
    /\ labels = [n \in AllNames |-> n]
    /\ ann = Quiet
    /\ act = A("Init", "-", "-")

Attach ==
    /\ ~hub
    /\ hub' = TRUE
    /\ ann' = Ann({}, {}, FALSE, FALSE)
    /\ act' = A("Attach", "-", "-")
    /\ UNCHANGED <<comps, coords, shape, label, renamed, labels>>

AddMain(n) ==
    /\ n \in Main \ Names
    /\ comps' = Append(comps, C(n, "main"))
    /\ ann' = Ann({<<"add", n>>}, {"ComponentsChanged"}, FALSE, FALSE)
    /\ act' = A("AddMain", n, "-")
    /\ UNCHANGED <<coords, shape, label, hub, renamed>>
    /\ labels' = [labels EXCEPT ![n] = n]

AddMainBadShape(n) ==
    /\ n \in Main \ Names
    /\ ann' = Raises
    /\ act' = A("AddMainBadShape", n, "-")
    /\ UNCHANGED svars

(* new values under an existing identifier: a value change, not a structural one *)
ReAddValues(n) ==
    /\ n \in Names \cap Main
    /\ ann' = Ann({}, {}, FALSE, FALSE)
    /\ act' = A("ReAddValues", n, "-")
    /\ UNCHANGED svars

AddDerived(n) ==
    /\ n \in Derived \ Names
    /\ Deps[n] \subseteq Names
    /\ comps' = Append(comps, C(n, "derived"))
    /\ ann' = Ann({<<"add", n>>}, {"ComponentsChanged"}, FALSE, FALSE)
    /\ act' = A("AddDerived", n, "-")
    /\ UNCHANGED <<coords, shape, label, hub, renamed>>
    /\ labels' = [labels EXCEPT ![n] = n]

Remove(n) ==
    /\ n \in Names \cap (Main \cup Derived \cup DupIds)
    /\ comps' = SelectSeq(comps, LAMBDA c : c.n \notin Closure(n))
    /\ ann' = Ann({<<"remove", m>> : m \in Closure(n)}, {"ComponentsChanged"}, FALSE, FALSE)
    /\ act' = A("Remove", n, "-")
    /\ UNCHANGED <<coords, shape, label, hub, renamed, labels>>

RemoveAbsent(n) ==
    /\ n \in (Main \cup Derived) \ Names
    /\ ann' = Quiet
    /\ act' = A("RemoveAbsent", n, "-")
    /\ UNCHANGED svars

Rotate(s) == IF Len(s) <= 1 THEN s ELSE Append(Tail(s), Head(s))
Reverse(s) == [i \in DOMAIN s |-> s[Len(s) + 1 - i]]

Reorder(how) ==
    /\ how \in {"rotate", "reverse"}
    /\ LET new == IF how = "rotate" THEN Rotate(comps) ELSE Reverse(comps) IN
         /\ comps' = new
         /\ ann' = IF new = comps THEN Quiet ELSE Ann({<<"reorder", "-">>}, {}, FALSE, FALSE)
    /\ act' = A("Reorder", how, "-")
    /\ UNCHANGED <<coords, shape, label, hub, renamed, labels>>

ReorderSame ==
    /\ ann' = Quiet
    /\ act' = A("Reorder", "same", "-")
    /\ UNCHANGED svars

ReorderInvalid(how) ==
    /\ how \in {"short", "foreign", "repeat", "repeat_same"}     \* too few identifiers, an unknown one, one listed twice
    /\ ann' = Raises
    /\ act' = A("Reorder", how, "-")
    /\ UNCHANGED svars

(* replace the identifier of an attribute: same position, same values; only explored for
   attributes nothing depends on (what should happen to dependants is not stated) *)
UpdateId(n) ==
    /\ n \in Names \cap Main
    /\ ~HasDependents(n)
    /\ n \notin renamed
    /\ comps' = [i \in DOMAIN comps |-> IF comps[i].n = n THEN C(n \o "2", "main") ELSE comps[i]]
    /\ renamed' = renamed \cup {n, n \o "2"}
    /\ ann' = Ann({<<"replaced", n>>}, {"ComponentsChanged"}, FALSE, FALSE)
    /\ act' = A("UpdateId", n, n \o "2")
    /\ UNCHANGED <<coords, shape, label, hub, labels>>

UpdateIdAbsent(n) ==
    /\ n \in Main \ Names
    /\ ann' = Quiet
    /\ act' = A("UpdateIdAbsent", n, "-")
    /\ UNCHANGED svars

Rename(n) ==
    /\ n \in Names \cap Main
    /\ n \notin renamed
    /\ labels' = [labels EXCEPT ![n] = n \o "r"]
    /\ renamed' = renamed \cup {n}
    /\ ann' = Ann({<<"rename", n>>}, {}, FALSE, FALSE)
    /\ act' = A("Rename", n, n \o "r")
    /\ UNCHANGED <<comps, coords, shape, label, hub>>

(* a new stored attribute under a label that is already in use (allowed: identifiers, not labels, are unique) *)
AddDup(d, of) ==
    /\ d \in DupIds \ Names
    /\ of \in Names
    /\ comps' = Append(comps, C(d, "main"))
    /\ labels' = [labels EXCEPT ![d] = labels[of]]
    /\ ann' = Ann({<<"add", d>>}, {"ComponentsChanged"}, FALSE, FALSE)
    /\ act' = A("AddDup", d, of)
    /\ UNCHANGED <<coords, shape, label, hub, renamed>>

UpdateValues(n) ==
    /\ n \in Names
    /\ \E c \in Range(comps) : c.n = n /\ c.k = "main"
    /\ ann' = Ann({}, {"NumericalDataChanged"}, FALSE, FALSE)
    /\ act' = A("UpdateValues", n, "-")
    /\ UNCHANGED svars

UpdateValuesBadShape(n) ==
    /\ n \in Names
    /\ \E c \in Range(comps) : c.n = n /\ c.k = "main"
    /\ ann' = Raises
    /\ act' = A("UpdateValuesBadShape", n, "-")
    /\ UNCHANGED svars

(* refresh from another dataset: "same" = same attributes, new values; "newshape" = same
   attributes, other lengths; "drop" = the other dataset lacks attribute m (it and its
   dependants go away) and has a new attribute "n1" *)
OtherShape(s) == IF s = "s1" THEN "s2" ELSE "s1"

\* the other dataset holds stored attributes only, so (as documented) attributes without a
\* match there - in particular every derived attribute - are dropped
DerivedNow == Names \cap Derived
NoDerived(s) == SelectSeq(s, LAMBDA c : c.k # "derived")

UpdateFromSame ==
    /\ Cardinality(LabelsInUse) = Cardinality(Names)      \* update_values_from_data refuses non-unique labels
    /\ Names \cap (Main \cup {"n1"}) # {}        \* the other dataset has at least one stored attribute
    /\ comps' = NoDerived(comps)
    /\ ann' = Ann({<<"remove", x>> : x \in DerivedNow},
                  {"NumericalDataChanged"} \cup (IF DerivedNow = {} THEN {} ELSE {"ComponentsChanged"}), FALSE, FALSE)
    /\ act' = A("UpdateFrom", "same", "-")
    /\ UNCHANGED <<coords, shape, label, hub, renamed, labels>>

UpdateFromNewShape ==
    /\ Cardinality(LabelsInUse) = Cardinality(Names)      \* update_values_from_data refuses non-unique labels
    /\ Names \cap (Main \cup {"n1"}) # {}
    /\ shape' = OtherShape(shape)
    /\ comps' = NoDerived(comps)
    /\ ann' = Ann({<<"remove", x>> : x \in DerivedNow},
                  {"NumericalDataChanged"} \cup (IF DerivedNow = {} THEN {} ELSE {"ComponentsChanged"}), FALSE, FALSE)
    /\ act' = A("UpdateFrom", "newshape", "-")
    /\ UNCHANGED <<coords, label, hub, renamed, labels>>

UpdateFromDrop(m) ==
    /\ Cardinality(LabelsInUse) = Cardinality(Names)      \* update_values_from_data refuses non-unique labels
    /\ m \in Names \cap Main
    /\ Cardinality(Names \cap Main) >= 2
    /\ "n1" \notin Names
    /\ comps' = Append(SelectSeq(comps, LAMBDA c : c.n # m /\ c.k # "derived"), C("n1", "main"))
    /\ ann' = Ann({<<"remove", x>> : x \in DerivedNow \cup {m}} \cup {<<"add", "n1">>},
                  {"ComponentsChanged", "NumericalDataChanged"}, FALSE, FALSE)
    /\ act' = A("UpdateFrom", "drop", m)
    /\ UNCHANGED <<coords, shape, label, hub, renamed, labels>>

(* new coordinates: the world attributes are replaced (the new ones are listed last) *)
SetCoords(k) ==
    /\ k \in Coords
    /\ LET old == {c.n : c \in {x \in Range(comps) : x.k = "world"}}
           kept == SelectSeq(comps, LAMBDA c : c.k # "world") IN
         /\ comps' = IF k = "none" THEN kept ELSE kept \o Wld
         /\ ann' = IF k = "none" /\ coords = "none" THEN Quiet
                   ELSE Ann({<<"remove", w>> : w \in old} \cup
                            (IF k = "none" THEN {} ELSE {<<"add", Wld[i].n>> : i \in 1..NDim}),
                            {"ComponentsChanged"}, FALSE, FALSE)
    /\ coords' = k
    /\ act' = A("SetCoords", k, "-")
    /\ UNCHANGED <<shape, label, hub, renamed, labels>>

SetLabel(l) ==
    /\ l \in Labels
    /\ label' = l
    /\ ann' = IF l = label THEN Quiet ELSE Ann({}, {"DataUpdate"}, FALSE, FALSE)
    /\ act' = A("SetLabel", l, "-")
    /\ UNCHANGED <<comps, coords, shape, hub, renamed, labels>>

Next ==
    \/ Attach
    \/ \E n \in Main : AddMain(n) \/ AddMainBadShape(n) \/ ReAddValues(n) \/ UpdateId(n) \/ UpdateIdAbsent(n)
                          \/ Rename(n) \/ UpdateFromDrop(n)
    \/ \E n \in Derived : AddDerived(n)
    \/ \E d \in DupIds, of \in DupOf : AddDup(d, of)
    \/ \E n \in Main \cup Derived \cup DupIds : Remove(n)
    \/ \E n \in Main \cup Derived : RemoveAbsent(n)
    \/ \E n \in Main \cup {m \o "2" : m \in Main} : UpdateValues(n) \/ UpdateValuesBadShape(n)
    \/ \E h \in {"rotate", "reverse"} : Reorder(h)
    \/ ReorderSame
    \/ \E h \in {"short", "foreign", "repeat", "repeat_same"} : ReorderInvalid(h)
    \/ UpdateFromSame
    \/ UpdateFromNewShape
    \/ \E k \in Coords : SetCoords(k)
    \/ \E l \in Labels : SetLabel(l)

Spec == Init /\ [][Next]_vars

(* the dependency sub-protocol, explored deeper on its own (GEN_DataStruct_deps.cfg): attributes are added, derived ones
   defined in any order, the list is reordered, and attributes are removed - removal must be transitive whatever the
   storage order of the dependants *)
NextDeps ==
    \/ Attach
    \/ \E n \in Main : AddMain(n)
    \/ \E n \in Derived : AddDerived(n)
    \/ \E n \in Main \cup Derived : Remove(n)
    \/ \E h \in {"rotate", "reverse"} : Reorder(h)

-----------------------------------------------------------------------------------------
(* structural clauses of C17 / C14 on the requirement itself *)
Kind(k) == SelectSeq(comps, LAMBDA c : c.k = k)
Inv_OnePixelPerDim == Len(Kind("pixel")) = NDim
Inv_WorldIffCoords == Len(Kind("world")) = IF coords = "none" THEN 0 ELSE NDim
Inv_UniqueIds == Cardinality(Names) = Len(comps)
\* a derived attribute is present only with all its inputs (removal is transitive and complete)
Inv_DerivedHaveInputs == \A d \in Names \cap Derived : Deps[d] \subseteq Names
\* a call that raises or changes nothing announces nothing
Prop_QuietMeansNoChange == [][ann'.quiet => UNCHANGED svars]_vars
\* removal removes dependants and nothing else
Prop_RemoveExact == [][(act'.op = "Remove") => (Names \ Names' = Dependents({act'.n}, Names))]_vars

Witness_Transitive == ~(act.op = "Remove" /\ Cardinality(ann.spec) >= 3)
=============================================================================
