----------------------------------- MODULE Derived -----------------------------------
(* Requirement specification of derived attributes defined by expressions (property C14,
   the evaluation half; the dependency half is DataStruct.tla).

   An expression is a tree over + - * / ** with attribute and constant leaves, written in
   prefix (Polish) notation as a sequence of strings, e.g. <<"+", "f", "*", "i", "2">>.
   TLC enumerates every tree to a depth bound.  For trees that use only + - * the expected
   value of every element is computed here, integer-exactly, from the leaf tables (the
   leaves include pixel and world attributes, which the code represents as broadcast
   arrays); for trees with / or ** the harness evaluates the SAME tree element by element
   with scalar floating-point arithmetic.  In both cases the derived attribute built from
   the tree - through arithmetic on identifiers, through a user function, and through a
   parsed text expression - must equal it on the whole dataset and under views.          *)
EXTENDS Integers, Sequences, FiniteSets, TLC

CONSTANTS
    Leaves,      \* attribute leaves (strings)
    Consts,      \* constant leaves (strings of integers, e.g. "2")
    ConstVal,    \* ConstVal[c] integer value
    LeafVals,    \* LeafVals[l] : sequence of integer values, one per element (C order)
    N,           \* number of elements
    ExactOps,    \* {"+", "-", "*"}
    FloatOps,    \* {"/", "**"}
    Depth        \* 1 or 2

VARIABLES cfg, exp, picked
vars == <<cfg, exp, picked>>

L0 == {<<l>> : l \in Leaves \cup Consts}
Ops == ExactOps \cup FloatOps
T1 == L0 \cup {<<op>> \o a \o b : op \in Ops, a \in L0, b \in L0}
(* depth 2: one side is a depth-1 tree, the other a leaf (both orders), plus a few full trees *)
T2 == T1 \cup {<<op>> \o a \o b : op \in Ops, a \in T1 \ L0, b \in L0}
         \cup {<<op>> \o a \o b : op \in Ops, a \in L0, b \in T1 \ L0}
Trees == IF Depth = 1 THEN T1 ELSE T2

IsExact(t) == \A i \in DOMAIN t : t[i] \notin FloatOps

(* evaluation of a prefix expression at element e: returns <<value, rest>> *)
RECURSIVE Eval(_, _)
Eval(t, e) ==
    LET h == Head(t) IN
    IF h \in Leaves THEN <<LeafVals[h][e], Tail(t)>>
    ELSE IF h \in Consts THEN <<ConstVal[h], Tail(t)>>
    ELSE LET a == Eval(Tail(t), e)
             b == Eval(a[2], e) IN
         <<CASE h = "+" -> a[1] + b[1] [] h = "-" -> a[1] - b[1] [] h = "*" -> a[1] * b[1] [] OTHER -> 0, b[2]>>

Init == cfg = [tree |-> <<>>] /\ exp = [exact |-> FALSE, vals |-> <<>>] /\ picked = FALSE

Pick ==
    /\ ~picked
    /\ picked' = TRUE
    /\ \E t \in Trees :
         /\ cfg' = [tree |-> t]
         /\ exp' = IF IsExact(t) THEN [exact |-> TRUE, vals |-> [e \in 1..N |-> Eval(t, e)[1]]]
                                 ELSE [exact |-> FALSE, vals |-> <<>>]

Next == Pick
Spec == Init /\ [][Next]_vars

Inv_WellFormed == picked => (IsExact(cfg.tree) => Eval(cfg.tree, 1)[2] = <<>>)
=============================================================================
