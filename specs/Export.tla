------------------------------------- MODULE Export -------------------------------------
(* Exported data files load back to the same table or image (property C19).

   A configuration: a table (1-d) or an image (2-d) with a set of columns of kinds float
   (with NaN and negative values), int (with negative values) and text, what is exported
   (the whole dataset or a subset: empty, proper, full), and the format.  TLC computes
       exp.cols    the kinds of the components that must come back, in order
       exp.rows    tables: the source rows that must come back, in order
       exp.keep    images: the pixels whose values must be preserved (the others are blanked)
       exp.ok      whether the format can represent the configuration at all
   and then the actions Export, Import, SaveByReference, Restore are identities on that
   abstract content.  The harness runs the registered exporter, load_data, a session saved
   with include_data=False on the imported dataset and its restore, comparing each stage. *)
EXTENDS Naturals, Sequences, FiniteSets, TLC

CONSTANTS N, Formats, ColKinds,
          Profiles   \* value alphabets: "plain" (NaN, negatives) and "edge" (infinities, -1, 16-bit extremes, text with a comma), "narrow" (float32 / int16 storage) - see harness/adapters/export.py

VARIABLES cfg, exp, stage, picked
vars == <<cfg, exp, stage, picked>>

Subsets == [none |-> 1..N, empty |-> {}, proper |-> {2, N}, full |-> 1..N]
ColSets == {<<"float">>, <<"int">>, <<"float", "int">>, <<"int", "float">>, <<"float", "text">>, <<"text", "int", "float">>}

TableFormats == {"csv", "fits_table", "votable", "hdf5"}
ImageFormats == {"hdf5", "gridded_fits"}
Carries(f, k) == IF f = "gridded_fits" THEN k \in {"float", "int"} ELSE TRUE
SortedSeq(S) == LET F[k \in 0..N] == IF k = 0 THEN <<>> ELSE IF k \in S THEN Append(F[k - 1], k) ELSE F[k - 1] IN F[N]

Expect(shape, cols, sub, f) ==
    LET carried == SelectSeq(cols, LAMBDA k : Carries(f, k)) IN
    [ok |-> (IF shape = "table" THEN f \in TableFormats \cup {"gridded_fits"} ELSE f \in ImageFormats) /\ carried # <<>>,
     cols |-> carried,
     rows |-> IF shape = "table" /\ f # "gridded_fits" THEN SortedSeq(Subsets[sub]) ELSE SortedSeq(1..N),
     keep |-> Subsets[sub],
     filtered |-> shape = "table" /\ f # "gridded_fits"]

Init == cfg = [shape |-> "-"] /\ exp = [ok |-> FALSE] /\ stage = "init" /\ picked = FALSE

Pick ==
    /\ ~picked
    /\ picked' = TRUE
    /\ \E shape \in {"table", "image"}, cols \in ColSets, sub \in DOMAIN Subsets, f \in Formats, pr \in Profiles :
         /\ cfg' = [shape |-> shape, cols |-> cols, sub |-> sub, fmt |-> f, vals |-> pr]
         /\ exp' = Expect(shape, cols, sub, f)
    /\ stage' = "built"

Step(from, to) == picked /\ exp.ok /\ stage = from /\ stage' = to /\ UNCHANGED <<cfg, exp, picked>>
Next == Pick \/ Step("built", "exported") \/ Step("exported", "imported") \/ Step("imported", "saved_by_reference") \/ Step("saved_by_reference", "restored")
Spec == Init /\ [][Next]_vars

(* every stage keeps the abstract content: nothing but `stage` changes after Pick *)
Prop_StagesAreIdentities == [][picked => (cfg' = cfg /\ exp' = exp)]_vars
Inv_RowsSubset == (picked /\ exp.ok) => \A i \in DOMAIN exp.rows : exp.rows[i] \in 1..N
=============================================================================
