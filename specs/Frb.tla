------------------------------------- MODULE Frb -------------------------------------
(* Requirement specification of fixed-resolution buffers (property C16).

   A reference dataset A and source datasets B, B2 whose pixel axes are linked to A's:
       B.pixel[j] = S[j] * A.pixel[PI[j]] + O[j]        (integer scale, offset, permutation)
   A request asks, for a grid of sample positions given per A axis either as a scalar or as
   a range (lo, step, n) - positions are in units of 1/8 pixel and chosen so that no sample
   falls on a rounding tie -, for the values of an attribute of the source (its values are
   the linear index, so any wrong pixel is visible) or for the membership of a selection.
   TLC computes with integer arithmetic
       exp.shape   the shape of the buffer (one axis per ranged bound)
       exp.lin     per sample, in C order, the linear index of the NEAREST source pixel,
                   or -1 when the linked position falls outside the source
   Requests are issued in SEQUENCES under one cache identifier: the required answer to a
   request is a function of the request alone (exp), whatever was asked before.          *)
EXTENDS Integers, Sequences, FiniteSets, TLC

CONSTANTS
    Frames,     \* set of [ashape, b, b2] where b, b2 = [shape, pi, s, o]
    Bounds,     \* sequence of bounds tuples; an item is [k |-> "scalar", v |-> v8] or [k |-> "range", lo, step, n]
    Whats,      \* {"c1", "c2", "s1", "s2"}
    MaxReq

VARIABLES frame, hist, exp, act
vars == <<frame, hist, exp, act>>

RECURSIVE Stride(_, _)
Stride(shape, k) == IF k = Len(shape) THEN 1 ELSE shape[k + 1] * Stride(shape, k + 1)

RangeAxes(bd) == SelectSeq([k \in 1..Len(bd) |-> k], LAMBDA k : bd[k].k = "range")
BShape(bd) == LET ra == RangeAxes(bd) IN [j \in 1..Len(ra) |-> bd[ra[j]].n]

RECURSIVE Cells(_)
Cells(shape) ==
    IF shape = <<>> THEN <<<<>>>>
    ELSE LET rest == Cells(Tail(shape)) IN
         LET F[i \in 0..Head(shape)] == IF i = 0 THEN <<>> ELSE F[i - 1] \o [j \in 1..Len(rest) |-> <<i - 1>> \o rest[j]] IN F[Head(shape)]

(* position (in 1/8 pixel) along A axis a for sample multi-index m over the ranged axes *)
APos(bd, m, a) ==
    IF bd[a].k = "scalar" THEN bd[a].v
    ELSE LET ra == RangeAxes(bd)
             j == CHOOSE x \in 1..Len(ra) : ra[x] = a IN
         bd[a].lo + m[j] * bd[a].step

Nearest(c8) == (c8 + 4) \div 8          \* floor((c + 1/2)); no ties by construction of the positions

Lin(src, bd, m) ==
    LET idx == [j \in 1..Len(src.shape) |-> Nearest(src.s[j] * APos(bd, m, src.pi[j]) + 8 * src.o[j])] IN
    IF \E j \in 1..Len(src.shape) : idx[j] < 0 \/ idx[j] >= src.shape[j] THEN -1
    ELSE LET F[k \in 0..Len(src.shape)] == IF k = 0 THEN 0 ELSE F[k - 1] + idx[k] * Stride(src.shape, k) IN F[Len(src.shape)]

Expected(fr, r) ==
    LET src == IF r.src = "B" THEN fr.b ELSE fr.b2
        bd == Bounds[r.bounds]
        cells == Cells(BShape(bd)) IN
    [shape |-> BShape(bd), lin |-> [c \in 1..Len(cells) |-> Lin(src, bd, cells[c])]]

Requests == {[src |-> s, what |-> w, bounds |-> b] : s \in {"B", "B2"}, w \in Whats, b \in 1..Len(Bounds)}

NoTie(fr) == \A r \in Requests :
    LET src == IF r.src = "B" THEN fr.b ELSE fr.b2
        bd == Bounds[r.bounds] IN
    \A m \in {Cells(BShape(bd))[c] : c \in 1..Len(Cells(BShape(bd)))} : \A j \in 1..Len(src.shape) :
        (src.s[j] * APos(bd, m, src.pi[j]) + 8 * src.o[j]) % 8 # 4

Init == frame = [picked |-> FALSE] /\ hist = <<>> /\ exp = [shape |-> <<>>, lin |-> <<>>] /\ act = [op |-> "init"]

PickFrame ==
    /\ frame.picked = FALSE
    /\ \E fr \in Frames : frame' = [picked |-> TRUE] @@ fr
    /\ act' = [op |-> "frame"]
    /\ UNCHANGED <<hist, exp>>

Request(r) ==
    /\ frame.picked
    /\ Len(hist) < MaxReq
    /\ hist' = Append(hist, r)
    /\ exp' = Expected(frame, r)
    /\ act' = [op |-> "request"] @@ r
    /\ UNCHANGED frame

Next == PickFrame \/ \E r \in Requests : Request(r)
Spec == Init /\ [][Next]_vars

(* the required answer depends on the last request only; model sanity *)
Inv_NoTies == frame.picked => NoTie(frame)
Inv_Sizes == Len(exp.lin) = (LET F[k \in 0..Len(exp.shape)] == IF k = 0 THEN 1 ELSE F[k - 1] * exp.shape[k] IN F[Len(exp.shape)]) \/ hist = <<>>
Witness_Out == ~(\E i \in DOMAIN exp.lin : exp.lin[i] = -1) \/ ~(\E i \in DOMAIN exp.lin : exp.lin[i] >= 0)
=============================================================================
