\* behaviours for the replay: 2 datasets, 2 groups, one delay block, every history of <= 6 operations
CONSTANTS
  Data = {"d1", "d2"}
  MaxGroups = 2
  MaxDelay = 1
  MaxOps = 6
  FixAdd = TRUE
  FixRemove = TRUE
INIT Init
NEXT Next
INVARIANT Inv_Membership
