\* E1 generation: all histories of length <= 6 over 2 datasets + 1 merge result, <= 2 groups, one delay level.
CONSTANTS
  Data = {"d1", "d2"}
  Fresh <- c_Fresh1
  MaxGroups = 2
  Row = {0, 1, 2}
  Sel <- c_Sel2
  Label = {"A"}
  Color = {"c1"}
  MaxDelay = 1
INIT Init
NEXT Next
CONSTRAINT Depth6
INVARIANT TypeOK
