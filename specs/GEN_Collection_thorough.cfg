\* E1 generation thorough: all histories of length <= 7 over 3 datasets + 1 merge result, <= 3 groups, delay nesting 2.
CONSTANTS
  Data = {"d1", "d2", "d3"}
  Fresh <- c_Fresh1
  MaxGroups = 3
  Row = {0, 1, 2}
  Sel <- c_Sel2
  Label = {"A"}
  Color = {"c1"}
  MaxDelay = 2
INIT Init
NEXT Next
CONSTRAINT Depth7
INVARIANT TypeOK
