\* E1 generation: all do/undo/redo words to depth 4 over 2 datasets, 2 leaves, 3 modes, MaxUndo 2.
CONSTANTS
  Data = {"d1", "d2"}
  Fresh <- c_Fresh0
  MaxGroups = 3
  Row = {0, 1, 2}
  Sel <- c_Leaf
  Label = {"A"}
  Color = {"c1"}
  MaxDelay = 0
  Leaf <- c_Leaf
  Mode <- c_Mode3
  CmdKinds <- c_AllKinds
  Setup = TRUE
  MaxUndo = 2
INIT SInit
NEXT SNext
CONSTRAINT D4
INVARIANT STypeOK
