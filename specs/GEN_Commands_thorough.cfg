\* E1 generation thorough: all do/undo/redo words to depth 5 over 2 datasets, 2 leaves, all 6 modes, MaxUndo 2.
CONSTANTS
  Data = {"d1", "d2"}
  Fresh <- c_Fresh0
  MaxGroups = 3
  Row = {0, 1, 2}
  Sel <- c_Leaf
  Label = {"A"}
  Color = {"c1"}
  MaxDelay = 0
  Leaf <- c_Leaf
  Mode <- c_ModeAll
  CmdKinds <- c_AllKinds
  Setup = TRUE
  MaxUndo = 2
INIT SInit
NEXT SNext
CONSTRAINT D5
INVARIANT STypeOK
