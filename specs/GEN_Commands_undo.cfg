\* E1 generation, undo/redo-heavy: every word of length <= 8 over {Do AddData d1, Do ApplySubsetState(leaf, none|Xor|New), Undo, Redo},
\* one dataset-free collection, MaxUndo 3 - deep interleavings across the command that created the group.
CONSTANTS
  Data = {"d1"}
  Fresh <- c_Fresh0
  MaxGroups = 4
  Row = {0, 1, 2}
  Sel <- c_Leaf1
  Label = {"A"}
  Color = {"c1"}
  MaxDelay = 0
  Leaf <- c_Leaf1
  Mode <- c_ModeXN
  CmdKinds <- c_ApplyAdd
  Setup = FALSE
  MaxUndo = 3
INIT SInit
NEXT SNext
CONSTRAINT D8
INVARIANT STypeOK
