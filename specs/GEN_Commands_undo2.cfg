\* E1 generation, undo across dataset removal: every word of length <= 7 over {Do AddData d1, Do RemoveData d1,
\* Do ApplySubsetState(leaf, none|Xor), Undo, Redo}, MaxUndo 3 - undo of a selection after the dataset left and came back.
CONSTANTS
  Data = {"d1"}
  Fresh <- c_Fresh0
  MaxGroups = 3
  Row = {0, 1, 2}
  Sel <- c_Leaf1
  Label = {"A"}
  Color = {"c1"}
  MaxDelay = 0
  Leaf <- c_Leaf1
  Mode <- c_ModeX
  CmdKinds <- c_ApplyAddRemove
  Setup = FALSE
  MaxUndo = 3
INIT SInit
NEXT SNext
CONSTRAINT D7
INVARIANT STypeOK
