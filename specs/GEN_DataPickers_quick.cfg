\* every history of <= 5 operations over 2 datasets
CONSTANTS
  Data = {"d1", "d2"}
  Labels = {"d1", "zz"}
  MaxDelay = 1
  MaxOps = 5
INIT Init
NEXT Next
INVARIANT Inv_SelectionsAreChoices
INVARIANT Inv_ManualWithinCollection
