\* every history of <= 6 operations over 3 datasets
CONSTANTS
  Data = {"d1", "d2", "d3"}
  Labels = {"d1", "zz"}
  MaxDelay = 2
  MaxOps = 6
INIT Init
NEXT Next
INVARIANT Inv_SelectionsAreChoices
INVARIANT Inv_ManualWithinCollection
