\* E1 generation, dependency sub-protocol (add main/derived, reorder, remove): all histories of length <= 5
CONSTANTS
  Main <- c_Main
  Derived <- c_Derived
  Deps <- c_Deps
  NDim = 2
  Coords <- c_Coords
  Labels = {"L1", "L2"}
  DupIds = {"d1", "d2"}
  DupOf = {"a", "x", "p1"}
INIT Init
NEXT NextDeps
CONSTRAINT D5
INVARIANT Inv_DerivedHaveInputs
