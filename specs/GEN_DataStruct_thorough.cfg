\* E1 generation: all histories of length <= 4 (valid and invalid calls).
CONSTANTS
  Main <- c_Main
  Derived <- c_Derived
  Deps <- c_Deps
  NDim = 2
  Coords <- c_Coords
  Labels = {"L1", "L2"}
  DupIds = {"d1", "d2"}
  DupOf = {"a", "x", "p1"}
INIT Init
NEXT Next
CONSTRAINT D4
