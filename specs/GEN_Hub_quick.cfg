\* E1 generation (exported with -dump dot,actionlabels; no VIEW so that `act` labels every state).
\* 2 listeners, classes M > M1, distinct priorities, <=2 setup subscriptions, <=2 messages, <=1 nested call.
CONSTANTS
  Listener = {"L1", "L2"}
  Class <- c_Class2
  Parent <- c_Parent2
  Prio = {1, 2}
  Filter = {"all"}
  MaxMsg = 2
  MaxFrames = 6
  MaxBlocks = 2
  MaxSetup = 2
  MaxLate = 0
  MaxNested = 1
  DistinctPrio = TRUE
INIT Init
NEXT Next
