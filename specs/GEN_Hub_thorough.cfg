\* E1 generation, thorough: 2 listeners, classes M > M1, filter all, <=2 setup subscriptions,
\* <=2 messages, <=1 late (un)subscription, <=2 nested calls.
CONSTANTS
  Listener = {"L1", "L2"}
  Class <- c_Class2
  Parent <- c_Parent2
  Prio = {1, 2}
  Filter = {"all"}
  MaxMsg = 2
  MaxFrames = 6
  MaxBlocks = 2
  MaxSetup = 2
  MaxLate = 1
  MaxNested = 2
  DistinctPrio = TRUE
INIT Init
NEXT Next
