\* E1 generation, thorough: 2 listeners, classes M > M1 > M2, filters all/tag, <=2 setup subscriptions,
\* <=2 messages, <=1 late (un)subscription, <=2 nested calls.
CONSTANTS
  Listener = {"L1", "L2"}
  Class <- c_Class3
  Parent <- c_Parent3
  Prio = {1, 2}
  Filter = {"all", "tag"}
  MaxMsg = 2
  MaxFrames = 6
  MaxBlocks = 2
  MaxSetup = 2
  MaxLate = 1
  MaxNested = 2
  DistinctPrio = TRUE
INIT Init
NEXT Next
