\* E1 generation: every reachable (join set, selection) state with VIEW (one behaviour per state and transition).
CONSTANTS
  Dataset <- c_Dataset
  Table <- c_Table
  JoinMenu <- c_Menu
  Selections <- c_Sel
  MaxJoins = 3
INIT Init
NEXT Next
CONSTRAINT D5
