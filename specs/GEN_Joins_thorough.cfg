\* E1 generation (thorough): up to 4 joins at once, histories of <= 6 operations (one behaviour per state and transition).
CONSTANTS
  Dataset <- c_Dataset
  Table <- c_Table
  JoinMenu <- c_Menu
  Selections <- c_Sel
  MaxJoins = 4
INIT Init
NEXT Next
CONSTRAINT D6
