\* every history of <= 5 operations: 2 attributes, percentiles 100/90/80/Custom, log on/off, two hand-typed values, flip
CONSTANTS
  Attr <- c_Attr
  Pct = {100, 90, 80}
  Manual <- c_Manual
  Limits <- c_Limits
  MaxOps = 5
INIT Init
NEXT Next
INVARIANT Inv_CacheIsCurrent
PROPERTY Prop_RoundTrip
