\* E1 generation over link graphs: all three datasets and all six components present from the start, full menu of 9 links,
\* every history of <= 4 link operations (add / remove / set_links / component and dataset removal), <= 4 links at once.
CONSTANTS
  Dataset <- c_Dataset
  Comp <- c_Comp
  Owner <- c_Owner
  DependsOn <- c_DependsOn
  Initial <- c_AllComp
  InitialColl <- c_All
  LinkMenu <- c_Menu
  MaxDelay = 0
  MaxLinks = 4
INIT Init
NEXT Next
CONSTRAINT D4
