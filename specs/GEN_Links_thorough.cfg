\* E1 generation: all histories of length <= 6, menu of 5 links (<=3 at once), delay nesting 1.
CONSTANTS
  Dataset <- c_Dataset
  Comp <- c_Comp
  Owner <- c_Owner
  DependsOn <- c_DependsOn
  Initial <- c_Initial
  InitialColl <- c_None
  LinkMenu <- c_MenuSmall
  MaxDelay = 1
  MaxLinks = 3
INIT Init
NEXT Next
CONSTRAINT D6
