\* every interleaving of <= 3 evaluations and <= 2 mutations over 6 tree shapes, attached and free
CONSTANTS
  Trees <- c_Trees
  Slots = {"A", "B"}
  SlotsOf <- c_SlotsOf
  EvalKinds <- c_Evals
  Hows = {"move", "edit", "set"}
  MaxEval = 3
  MaxMut = 2
  MaxVer = 2
INIT Init
NEXT Next
PROPERTY Prop_EvaluateIsPure
