\* every history of <= 5 calls over 3 objects, 2 groups, 2 base labels
CONSTANTS
  Obj = {"o1", "o2", "o3"}
  Group = {"g1", "g2"}
  Base = {"A", "B"}
  MaxSuffix = 3
  MaxOps = 5
INIT Init
NEXT Next
PROPERTY Prop_RegisterGivesFreeLabel
PROPERTY Prop_OwnLabelKept
