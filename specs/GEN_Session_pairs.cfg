\* pairs of selection kinds under or / xor (every ordered pair) in one group, then save+load (twice); no links or joins; shapes 1-d and 2-d.
CONSTANTS
  SelKinds <- g_SelKinds
  LinkKinds = {}
  JoinKinds = {}
  Shapes = {"s1", "s2"}
  MaxGroups = 1
  Nest = FALSE
  Pairs = TRUE
  MaxSaves = 2
INIT Init
NEXT Next
CONSTRAINT D3
PROPERTY Prop_SaveLoadIsIdentity
