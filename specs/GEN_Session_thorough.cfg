\* every selection kind alone and nested (not / and / many-way or) in up to two groups, pairs of kinds under or/xor, then save+load (twice), with at most one link kind or join;
\* shapes 1-d and 2-d.
CONSTANTS
  SelKinds <- g_SelKinds
  LinkKinds <- g_LinkKinds
  JoinKinds = {"j11", "j1N", "jNN"}
  Shapes = {"s1", "s2"}
  MaxGroups = 2
  Nest = TRUE
  Pairs = TRUE
  MaxSaves = 2
INIT Init
NEXT Next
CONSTRAINT D3
PROPERTY Prop_SaveLoadIsIdentity
