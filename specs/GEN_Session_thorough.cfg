\* every selection kind alone and nested (not / and / many-way or) in one group, with a link kind and/or a join kind, then save+load (twice):
\* every history of <= 4 actions; shapes 1-d and 2-d.
CONSTANTS
  SelKinds <- g_SelKinds
  LinkKinds <- g_LinkKinds
  JoinKinds = {"j11", "j1N", "jNN"}
  Shapes = {"s1", "s2"}
  MaxGroups = 1
  Nest = TRUE
  Pairs = FALSE
  MaxSaves = 2
INIT Init
NEXT Next
CONSTRAINT D4
PROPERTY Prop_SaveLoadIsIdentity
