\* two groups, each holding a selection kind alone or nested, then save+load (twice); no links or joins; shapes 1-d and 2-d.
CONSTANTS
  SelKinds <- g_SelKinds
  LinkKinds = {}
  JoinKinds = {}
  Shapes = {"s1", "s2"}
  MaxGroups = 2
  Nest = TRUE
  Pairs = FALSE
  MaxSaves = 2
INIT Init
NEXT Next
CONSTRAINT D4
PROPERTY Prop_SaveLoadIsIdentity
