\* edit-mode histories only: every sequence of <= 4 edit-mode applications (5 modes x 2 leaves); the edit subset is evaluated after each
CONSTANTS
  Leaf = {"s1", "s2", "s3"}
  LeafSeq <- c_LeafSeq
  MaxPool = 3
  Modes <- c_Modes
  NViews = 0
  EditLeaves = {"s1", "s2"}
INIT Init
NEXT Next
CONSTRAINT D4
INVARIANT Inv_Homomorphism
