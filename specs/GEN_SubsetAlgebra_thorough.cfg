\* every history of <= 2 actions over 3 leaves (combine and/or/xor, invert, many-way or, copy, evaluate under 3 views, 5 edit modes)
CONSTANTS
  Leaf = {"s1", "s2", "s3"}
  LeafSeq <- c_LeafSeq
  MaxPool = 6
  Modes <- c_Modes
  NViews = 3
  EditLeaves = {"s1", "s2", "s3"}
INIT Init
NEXT Next
CONSTRAINT D2
INVARIANT Inv_Homomorphism
PROPERTY Prop_OperandsKeepMeaning
