\* part 1, one dataset, one group: every history of length <= 6 (replayed on each of the four matplotlib viewers)
CONSTANTS
  Data = {"d1"}
  MaxGroups = 1
  MaxDelay = 0
  MaxLayerOps = 1
  AttrMenu <- c_AttrMenu
  Filters <- c_Filters
INIT Init
NEXT Next1
CONSTRAINT D6
INVARIANT Inv_LayersInColl
