\* part 1: every history of length <= 5
CONSTANTS
  Data = {"d1", "d2"}
  MaxGroups = 2
  MaxDelay = 1
  MaxLayerOps = 1
  AttrMenu <- c_AttrMenu
  Filters <- c_Filters
INIT Init
NEXT Next1
CONSTRAINT D5
INVARIANT Inv_LayersInColl
INVARIANT Inv_SelectionIsAChoice
