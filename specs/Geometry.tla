----------------------------------- MODULE Geometry -----------------------------------
(* Exact geometry of regions of interest (property C08; library for C09).

   All coordinates are integers in units of 1/U (U = 20): region parameters and test points
   lie on a lattice, rotation angles have rational sine and cosine (multiples of pi/2 and the
   3-4-5 angle and its quadrant images), so that containment is decided by integer
   arithmetic.  A region is a record; for each region TLC computes over the lattice
       Inside(roi)   the points strictly inside
       Band(roi)     the points exactly on the boundary (the only lattice points that are
                     within a small tolerance of it - every other point is at least 1/(5U)
                     away): nothing is required there
   A configuration is a region followed by a short sequence of actions (move the centre,
   rotate, copy, save/restore, polygon approximation); the spec applies each action to the
   PARAMETERS exactly (translation, rotation class), so the Inside set after the action is
   the exact image of the one before - equivariance is what the parameter update means, and
   TLC checks it (Inv_MoveTranslates).  Angle classes "near a quarter turn" (pi/2 +- 1e-10 ...)
   have the Inside set of the exact quarter turn: these are the inputs that select between
   the isclose() branches of the code.                                                   *)
EXTENDS Integers, Sequences, FiniteSets, TLC

CONSTANTS
    Regions,     \* set of region records (see MC_Geometry.tla)
    Angles,      \* set of angle classes [name, cn, sn, cd] : cos = cn/cd, sin = sn/cd
    Centres,     \* set of <<x, y>> targets for MoveTo
    Grid,        \* lattice half-extent (in units of Step)
    Step,        \* lattice spacing in 1/U units
    PolyVerts,   \* PolyVerts[name] : sequence of <<x, y>> relative to the centroid
    MaxActs

VARIABLES roi, inside, band, acts, act, picked
vars == <<roi, inside, band, acts, act, picked>>

Abs(x) == IF x < 0 THEN -x ELSE x
Points == {<<i * Step, j * Step>> : i \in -Grid..Grid, j \in -Grid..Grid}

(* rotate the offset (dx, dy) by MINUS the angle a, scaled by a.cd *)
RotX(a, dx, dy) == a.cn * dx + a.sn * dy
RotY(a, dx, dy) == a.cn * dy - a.sn * dx

CentreOf(r) ==
    CASE r.k \in {"rect"} -> <<(r.x0 + r.x1) \div 2, (r.y0 + r.y1) \div 2>>
      [] OTHER -> <<r.xc, r.yc>>

(* -------- containment, strict; and exact-boundary band -------- *)
RectIn(r, p) ==
    LET c == CentreOf(r)
        xr == RotX(r.th, p[1] - c[1], p[2] - c[2])
        yr == RotY(r.th, p[1] - c[1], p[2] - c[2]) IN
    2 * Abs(xr) < (r.x1 - r.x0) * r.th.cd /\ 2 * Abs(yr) < (r.y1 - r.y0) * r.th.cd
RectOn(r, p) ==
    LET c == CentreOf(r)
        xr == RotX(r.th, p[1] - c[1], p[2] - c[2])
        yr == RotY(r.th, p[1] - c[1], p[2] - c[2])
        w == (r.x1 - r.x0) * r.th.cd
        h == (r.y1 - r.y0) * r.th.cd IN
    ~RectIn(r, p) /\ 2 * Abs(xr) <= w /\ 2 * Abs(yr) <= h

EllV(r, p) ==       \* (x'/rx)^2 + (y'/ry)^2 compared with 1, cleared of denominators
    LET xr == RotX(r.th, p[1] - r.xc, p[2] - r.yc)
        yr == RotY(r.th, p[1] - r.xc, p[2] - r.yc) IN
    xr * xr * r.ry * r.ry + yr * yr * r.rx * r.rx
EllR(r) == r.rx * r.rx * r.ry * r.ry * r.th.cd * r.th.cd

D2(r, p) == (p[1] - r.xc) * (p[1] - r.xc) + (p[2] - r.yc) * (p[2] - r.yc)

(* polygon: vertices = centroid + rotation(th) of the relative vertices, scaled by cd *)
PolyV(r) == LET V == PolyVerts[r.poly] IN
    [i \in 1..Len(V) |-> <<r.th.cd * r.xc + r.th.cn * V[i][1] - r.th.sn * V[i][2],
                           r.th.cd * r.yc + r.th.sn * V[i][1] + r.th.cn * V[i][2]>>]
EdgeCross(a, b, q) ==        \* does the edge a-b cross the ray from q towards +x ?  (all scaled by cd)
    /\ (a[2] > q[2]) # (b[2] > q[2])
    /\ LET dy == b[2] - a[2]
           lhs == (q[1] - a[1]) * dy
           rhs == (q[2] - a[2]) * (b[1] - a[1]) IN
       IF dy > 0 THEN lhs < rhs ELSE lhs > rhs
OnEdge(a, b, q) ==
    /\ (b[1] - a[1]) * (q[2] - a[2]) = (b[2] - a[2]) * (q[1] - a[1])
    /\ (IF a[1] <= b[1] THEN a[1] <= q[1] /\ q[1] <= b[1] ELSE b[1] <= q[1] /\ q[1] <= a[1])
    /\ (IF a[2] <= b[2] THEN a[2] <= q[2] /\ q[2] <= b[2] ELSE b[2] <= q[2] /\ q[2] <= a[2])
Nxt(V, i) == IF i = Len(V) THEN V[1] ELSE V[i + 1]
PolyOn(r, p) == LET V == PolyV(r)
                    q == <<p[1] * r.th.cd, p[2] * r.th.cd>> IN
    \E i \in 1..Len(V) : OnEdge(V[i], Nxt(V, i), q)
PolyIn(r, p) == LET V == PolyV(r)
                    q == <<p[1] * r.th.cd, p[2] * r.th.cd>> IN
    ~PolyOn(r, p) /\ Cardinality({i \in 1..Len(V) : EdgeCross(V[i], Nxt(V, i), q)}) % 2 = 1

In(r, p) ==
    CASE r.k = "rect"    -> RectIn(r, p)
      [] r.k = "circle"  -> D2(r, p) < r.rx * r.rx
      [] r.k = "ellipse" -> EllV(r, p) < EllR(r)
      [] r.k = "annulus" -> r.ry * r.ry < D2(r, p) /\ D2(r, p) < r.rx * r.rx      \* ry = inner, rx = outer radius
      [] r.k = "xrange"  -> r.x0 < p[1] /\ p[1] < r.x1
      [] r.k = "yrange"  -> r.y0 < p[2] /\ p[2] < r.y1
      [] r.k = "poly"    -> PolyIn(r, p)
On(r, p) ==
    CASE r.k = "rect"    -> RectOn(r, p)
      [] r.k = "circle"  -> D2(r, p) = r.rx * r.rx
      [] r.k = "ellipse" -> EllV(r, p) = EllR(r)
      [] r.k = "annulus" -> D2(r, p) = r.rx * r.rx \/ D2(r, p) = r.ry * r.ry
      [] r.k = "xrange"  -> p[1] = r.x0 \/ p[1] = r.x1
      [] r.k = "yrange"  -> p[2] = r.y0 \/ p[2] = r.y1
      [] r.k = "poly"    -> PolyOn(r, p)

Inside(r) == {p \in Points : In(r, p)}
Band(r) == {p \in Points : On(r, p)}

(* -------- actions on the parameters -------- *)
Move(r, c) ==
    IF r.k = "rect"
    THEN LET o == CentreOf(r) IN [r EXCEPT !.x0 = @ + c[1] - o[1], !.x1 = @ + c[1] - o[1], !.y0 = @ + c[2] - o[2], !.y1 = @ + c[2] - o[2]]
    ELSE [r EXCEPT !.xc = c[1], !.yc = c[2]]
Rotate(r, a) == [r EXCEPT !.th = a]
CanMove(r) == r.k \in {"rect", "circle", "ellipse", "annulus", "poly"}
CanRotate(r) == r.k \in {"rect", "ellipse", "poly"}

Init == roi = [k |-> "none"] /\ inside = {} /\ band = {} /\ acts = <<>> /\ act = [op |-> "init"] /\ picked = FALSE

Pick ==
    /\ ~picked
    /\ picked' = TRUE
    /\ \E r \in Regions :
         /\ roi' = r
         /\ inside' = Inside(r)
         /\ band' = Band(r)
    /\ acts' = <<>>
    /\ act' = [op |-> "pick"]

Do(a, r2) ==
    /\ picked
    /\ Len(acts) < MaxActs
    /\ roi' = r2
    /\ inside' = Inside(r2)
    /\ band' = Band(r2)
    /\ acts' = Append(acts, a)
    /\ act' = a
    /\ UNCHANGED picked

MoveTo(c) == CanMove(roi) /\ Do([op |-> "MoveTo", x |-> c[1], y |-> c[2]], Move(roi, c))
(* ellipses are only rotated to angle classes with a denominator <= 5: the cleared-denominator test EllV multiplies four
   scaled lengths and would leave TLC's 32-bit integers for 5-12-13 angles *)
RotateTo(a) == CanRotate(roi) /\ a.name # roi.th.name /\ (roi.k = "ellipse" => a.cd <= 5) /\ Do([op |-> "RotateTo", a |-> a.name], Rotate(roi, a))
Same(op) == Do([op |-> op], roi)

Next ==
    \/ Pick
    \/ \E c \in Centres : MoveTo(c)
    \/ \E a \in Angles : RotateTo(a)
    \/ \E op \in {"Copy", "SaveRestore", "ToPolygon", "Transpose2"} : Same(op)

Spec == Init /\ [][Next]_vars

(* moving translates the contained set exactly (checked where the translated point stays on the lattice) *)
Prop_MoveTranslates ==
    [][(act'.op = "MoveTo") =>
          LET o == CentreOf(roi)
              n == CentreOf(roi')
              d == <<n[1] - o[1], n[2] - o[2]>> IN
          \A p \in Points : (<<p[1] + d[1], p[2] + d[2]>> \in Points) =>
              ((p \in inside) <=> (<<p[1] + d[1], p[2] + d[2]>> \in inside'))]_vars
Inv_InsideBandDisjoint == inside \cap band = {}
NonDegenerate(r) == CASE r.k = "rect" -> r.x1 > r.x0 /\ r.y1 > r.y0 [] r.k = "circle" -> r.rx > 0 [] r.k = "ellipse" -> r.rx > 0 /\ r.ry > 0 [] OTHER -> FALSE
Inv_CentreInsideConvex == (picked /\ NonDegenerate(roi) /\ CentreOf(roi) \in Points) => CentreOf(roi) \in inside
=============================================================================
