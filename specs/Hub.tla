------------------------------------ MODULE Hub ------------------------------------
(* Requirement specification of glue.core.hub.Hub (property C07), small-step.

   The hub is a sequential object, but a handler may call back into it.  The control
   structure is therefore explicit: `frames` is the call stack of deliveries in progress,
   handlers being executed and queue flushes in progress.  An API call (Broadcast,
   Subscribe, ..., DelayEnter, ...) may happen at top level (no frame) or from inside a
   handler (top frame is a handler frame): handlers are arbitrary programs, so every API
   call is enabled there.  Internal steps (DeliverNext, DelivDone, HandlerReturn,
   FlushNext, FlushDone) are the hub's own control flow.

   One module serves three uses:
     E0  model checking of the invariants below (MC_Hub*.cfg)
     E1  behaviours exported to the replay harness (GEN_Hub*.cfg): the sequence of `act`
         values is turned into a call tree and executed against a real Hub with real
         HubListeners whose handlers perform the planned nested calls
     E2  Trace_Hub.tla reuses these actions to validate recorded executions.           *)
EXTENDS Naturals, Sequences, FiniteSets, TLC

CONSTANTS
    Listener,      \* set of listeners (strings)
    Class,         \* set of message classes (strings)
    Parent,        \* Parent[c] \in Class \cup {"none"} : single-inheritance tree
    Prio,          \* set of priorities (naturals)
    Filter,        \* subset of {"all", "none", "tag"}
    MaxMsg,        \* bound: number of broadcasts
    MaxFrames,     \* bound: depth of the control stack
    MaxBlocks,     \* bound: depth of the block stack
    MaxSetup,      \* bound: subscriptions made in the setup phase
    MaxLate,       \* bound: subscribe/unsubscribe calls after the setup phase
    MaxNested,     \* bound: API calls made from inside handlers
    DistinctPrio   \* TRUE: all live subscriptions carry distinct priorities (deterministic order)

VARIABLES
    subs,     \* set of [l, c, p, f]: at most one per (l, c)
    blocks,   \* LIFO stack of open blocks: [k |-> "delay"|"ignore", c |-> class or "-"]
    queue,    \* messages queued while a delay block is open
    next,     \* next message id
    log,      \* sequence of <<listener, message id>>: handler invocations
    frames,   \* control stack (last = top)
    due,      \* history: message id -> set of listeners owed a delivery ("snapshot")
    fate,     \* history: message id -> "queued" | "dropped" | "delivering" | "done"
    origin,   \* history: message id -> depth of the control stack at its broadcast (0 = top level)
    phase,    \* "setup" | "run"
    nlate,    \* number of late subscribe/unsubscribe calls
    nnest,    \* number of API calls made from inside handlers
    act       \* history: the step just taken (exported to the replay harness)

vars == <<subs, blocks, queue, next, log, frames, due, fate, origin, phase, nlate, nnest, act>>
view == <<subs, blocks, queue, next, log, frames, due, fate, origin, phase, nlate, nnest>>

NoMsg == [id |-> 0, c |-> "-", tag |-> 0, acc |-> {}]
Act(op, l, c, p, f, tag, exc, m) == [op |-> op, l |-> l, c |-> c, p |-> p, f |-> f, tag |-> tag, exc |-> exc, m |-> m]
NoAct == Act("Init", "-", "-", 0, "-", 0, FALSE, 0)

-----------------------------------------------------------------------------------------
(* class tree *)
RECURSIVE Anc(_)
Anc(c) == IF c = "none" THEN {} ELSE {c} \cup Anc(Parent[c])      \* c and its superclasses
RECURSIVE Depth(_)
Depth(c) == IF c = "none" THEN 0 ELSE 1 + Depth(Parent[c])

(* blocks *)
DelayDepth == Cardinality({i \in DOMAIN blocks : blocks[i].k = "delay"})
Ignored(c) == \E i \in DOMAIN blocks : blocks[i].k = "ignore" /\ blocks[i].c = c   \* exact type only

(* who receives message m now: per listener the most specific subscribed superclass, filtered *)
(* filter kinds: "all", "none", "tag" (accepts messages tagged 1) are used by the model; "logged" is used by
   Trace_Hub.tla, where the outcome of every filter evaluation is read from the recorded execution (m.acc) *)
Accepts(s, m) == \/ s.f = "all"
                 \/ s.f = "tag" /\ m.tag = 1
                 \/ s.f = "logged" /\ <<s.l, s.c>> \in m.acc
SubsFor(l, m) == {s \in subs : s.l = l /\ s.c \in Anc(m.c)}
Best(l, m)    == CHOOSE s \in SubsFor(l, m) : \A t \in SubsFor(l, m) : Depth(t.c) <= Depth(s.c)
Candidates(m) == {Best(l, m) : l \in {x \in Listener : SubsFor(x, m) # {}}}    \* the subscription consulted per listener
Recipients(m) == {[l |-> s.l, p |-> s.p, c |-> s.c] : s \in {x \in Candidates(m) : Accepts(x, m)}}

(* control *)
Top      == frames[Len(frames)]
AtCall   == IF frames = <<>> THEN nnest' = nnest                      \* an API call can be made here
            ELSE Top.k = "handler" /\ nnest < MaxNested /\ nnest' = nnest + 1
Base     == IF frames = <<>> THEN 0 ELSE Top.base   \* block-stack height at handler entry
Pop(s)   == SubSeq(s, 1, Len(s) - 1)
Frame(k, m, l, rest, base, q) == [k |-> k, m |-> m, l |-> l, rest |-> rest, base |-> base, q |-> q]
DelivFrame(m) == Frame("deliv", m, "-", Recipients(m), 0, <<>>)

(* the effect of broadcast(m) when control reaches it *)
Dispatch(m, fr, qu) ==
    IF Ignored(m.c)
    THEN /\ fate' = [fate EXCEPT ![m.id] = "dropped"]
         /\ frames' = fr
         /\ queue' = qu
         /\ due' = due
    ELSE IF DelayDepth > 0
    THEN /\ fate' = [fate EXCEPT ![m.id] = "queued"]
         /\ queue' = Append(qu, m)
         /\ frames' = fr
         /\ due' = due
    ELSE /\ fate' = [fate EXCEPT ![m.id] = "delivering"]
         /\ frames' = Append(fr, DelivFrame(m))
         /\ due' = [due EXCEPT ![m.id] = {r.l : r \in Recipients(m)}]
         /\ queue' = qu

-----------------------------------------------------------------------------------------
Init ==
    /\ subs = {}
    /\ blocks = <<>>
    /\ queue = <<>>
    /\ next = 1
    /\ log = <<>>
    /\ frames = <<>>
    /\ due = [i \in 1..MaxMsg |-> {}]
    /\ fate = [i \in 1..MaxMsg |-> "none"]
    /\ origin = [i \in 1..MaxMsg |-> 0]
    /\ phase = "setup"
    /\ nlate = 0
    /\ nnest = 0
    /\ act = NoAct

PrioOK(l, c, p) == DistinctPrio => \A s \in subs : (s.l = l /\ s.c = c) \/ s.p # p

SubscribeEff(l, c, p, f) == subs' = {s \in subs : ~(s.l = l /\ s.c = c)} \cup {[l |-> l, c |-> c, p |-> p, f |-> f]}
UnsubscribeEff(l, c) == subs' = {s \in subs : ~(s.l = l /\ s.c = c)}
UnsubscribeAllEff(l) == subs' = {s \in subs : s.l # l}

Subscribe(l, c, p, f) ==
    /\ AtCall
    /\ PrioOK(l, c, p)
    /\ \/ phase = "setup" /\ Cardinality(subs) < MaxSetup /\ nlate' = nlate
       \/ phase = "run" /\ nlate < MaxLate /\ nlate' = nlate + 1
    /\ SubscribeEff(l, c, p, f)
    /\ act' = Act("Subscribe", l, c, p, f, 0, FALSE, 0)
    /\ UNCHANGED <<blocks, queue, next, log, frames, due, fate, origin, phase>>

Unsubscribe(l, c) ==
    /\ AtCall
    /\ phase = "run"
    /\ nlate < MaxLate
    /\ nlate' = nlate + 1
    /\ UnsubscribeEff(l, c)
    /\ act' = Act("Unsubscribe", l, c, 0, "-", 0, FALSE, 0)
    /\ UNCHANGED <<blocks, queue, next, log, frames, due, fate, origin, phase>>

UnsubscribeAll(l) ==
    /\ AtCall
    /\ phase = "run"
    /\ nlate < MaxLate
    /\ nlate' = nlate + 1
    /\ UnsubscribeAllEff(l)
    /\ act' = Act("UnsubscribeAll", l, "-", 0, "-", 0, FALSE, 0)
    /\ UNCHANGED <<blocks, queue, next, log, frames, due, fate, origin, phase>>

BroadcastM(m) ==          \* m.id = next
    /\ AtCall
    /\ next <= MaxMsg
    /\ Len(frames) < MaxFrames
    /\ Dispatch(m, frames, queue)
    /\ origin' = [origin EXCEPT ![m.id] = Len(frames)]
    /\ next' = next + 1
    /\ phase' = "run"
    /\ act' = Act("Broadcast", "-", m.c, 0, "-", m.tag, FALSE, next)
    /\ UNCHANGED <<subs, blocks, log, nlate>>

Broadcast(c, tag) == BroadcastM([id |-> next, c |-> c, tag |-> tag, acc |-> {}])

DelayEnter ==
    /\ AtCall
    /\ Len(blocks) < MaxBlocks
    /\ blocks' = Append(blocks, [k |-> "delay", c |-> "-"])
    /\ phase' = "run"
    /\ act' = Act("DelayEnter", "-", "-", 0, "-", 0, FALSE, 0)
    /\ UNCHANGED <<subs, queue, next, log, frames, due, fate, origin, nlate>>

(* closing a delay block, normally or because an exception propagates through it: when it
   was the outermost one, everything queued is delivered once, in order.                 *)
DelayExit(exc) ==
    /\ AtCall
    /\ Len(blocks) > Base
    /\ blocks[Len(blocks)].k = "delay"
    /\ blocks' = Pop(blocks)
    /\ IF DelayDepth = 1
       THEN /\ frames' = Append(frames, Frame("flush", NoMsg, "-", {}, 0, queue))
            /\ queue' = <<>>
       ELSE /\ UNCHANGED <<frames, queue>>
    /\ act' = Act("DelayExit", "-", "-", 0, "-", 0, exc, 0)
    /\ UNCHANGED <<subs, next, log, due, fate, origin, phase, nlate>>

IgnoreEnter(c) ==
    /\ AtCall
    /\ Len(blocks) < MaxBlocks
    /\ blocks' = Append(blocks, [k |-> "ignore", c |-> c])
    /\ phase' = "run"
    /\ act' = Act("IgnoreEnter", "-", c, 0, "-", 0, FALSE, 0)
    /\ UNCHANGED <<subs, queue, next, log, frames, due, fate, origin, nlate>>

IgnoreExit ==
    /\ AtCall
    /\ Len(blocks) > Base
    /\ blocks[Len(blocks)].k = "ignore"
    /\ blocks' = Pop(blocks)
    /\ act' = Act("IgnoreExit", "-", blocks[Len(blocks)].c, 0, "-", 0, FALSE, 0)
    /\ UNCHANGED <<subs, queue, next, log, frames, due, fate, origin, phase, nlate>>

(* internal control flow of the hub *)
MaxP(rest) == CHOOSE p \in {r.p : r \in rest} : \A r \in rest : r.p <= p

DeliverNext ==
    /\ frames # <<>>
    /\ Top.k = "deliv"
    /\ Top.rest # {}
    /\ \E r \in Top.rest :
         /\ r.p = MaxP(Top.rest)                      \* higher priority first; ties are free
         /\ log' = Append(log, <<r.l, Top.m.id>>)
         /\ frames' = Append([frames EXCEPT ![Len(frames)].rest = @ \ {r}],
                             Frame("handler", Top.m, r.l, {}, Len(blocks), <<>>))
         /\ act' = Act("Deliver", r.l, Top.m.c, r.p, "-", Top.m.tag, FALSE, Top.m.id)
    /\ UNCHANGED <<subs, blocks, queue, next, due, fate, origin, phase, nlate, nnest>>

DelivDone ==
    /\ frames # <<>>
    /\ Top.k = "deliv"
    /\ Top.rest = {}
    /\ frames' = Pop(frames)
    /\ fate' = [fate EXCEPT ![Top.m.id] = "done"]
    /\ act' = Act("DelivDone", "-", Top.m.c, 0, "-", 0, FALSE, Top.m.id)
    /\ UNCHANGED <<subs, blocks, queue, next, log, due, origin, phase, nlate, nnest>>

HandlerReturn ==
    /\ frames # <<>>
    /\ Top.k = "handler"
    /\ Len(blocks) = Top.base                          \* blocks opened by the handler are closed
    /\ frames' = Pop(frames)
    /\ act' = Act("HandlerReturn", Top.l, Top.m.c, 0, "-", 0, FALSE, Top.m.id)
    /\ UNCHANGED <<subs, blocks, queue, next, log, due, fate, origin, phase, nlate, nnest>>

FlushNextAcc(acc) ==      \* acc: filter outcomes for this message, known only now (trace validation); {} in the model
    /\ frames # <<>>
    /\ Top.k = "flush"
    /\ Top.q # <<>>
    /\ LET m == [Head(Top.q) EXCEPT !.acc = acc] IN
         /\ Dispatch(m, [frames EXCEPT ![Len(frames)].q = Tail(@)], queue)
         /\ act' = Act("FlushNext", "-", m.c, 0, "-", m.tag, FALSE, m.id)
    /\ UNCHANGED <<subs, blocks, next, log, origin, phase, nlate, nnest>>

FlushNext == FlushNextAcc({})

FlushDone ==
    /\ frames # <<>>
    /\ Top.k = "flush"
    /\ Top.q = <<>>
    /\ frames' = Pop(frames)
    /\ act' = Act("FlushDone", "-", "-", 0, "-", 0, FALSE, 0)
    /\ UNCHANGED <<subs, blocks, queue, next, log, due, fate, origin, phase, nlate, nnest>>

Next ==
    \/ \E l \in Listener, c \in Class, p \in Prio, f \in Filter : Subscribe(l, c, p, f)
    \/ \E l \in Listener, c \in Class : Unsubscribe(l, c)
    \/ \E l \in Listener : UnsubscribeAll(l)
    \/ \E c \in Class, tag \in (IF "tag" \in Filter THEN {0, 1} ELSE {0}) : Broadcast(c, tag)
    \/ DelayEnter
    \/ \E exc \in BOOLEAN : DelayExit(exc)
    \/ \E c \in Class : IgnoreEnter(c)
    \/ IgnoreExit
    \/ DeliverNext
    \/ DelivDone
    \/ HandlerReturn
    \/ FlushNext
    \/ FlushDone

Spec == Init /\ [][Next]_vars

-----------------------------------------------------------------------------------------
(* Properties of C07, one per clause *)

Count(l, i) == Cardinality({k \in DOMAIN log : log[k] = <<l, i>>})

TypeOK ==
    /\ next \in 1..(MaxMsg + 1)
    /\ \A s \in subs, t \in subs : (s.l = t.l /\ s.c = t.c) => s = t

\* at most once, to listeners owed only; exactly once when the message is settled
Inv_ExactlyOnce ==
    \A i \in 1..(next - 1) :
        /\ \A l \in Listener : Count(l, i) <= 1
        /\ \A l \in Listener : Count(l, i) = 1 => l \in due[i]
        /\ fate[i] = "done" => \A l \in due[i] : Count(l, i) = 1
        /\ fate[i] \in {"dropped", "queued"} => \A l \in Listener : Count(l, i) = 0

\* nothing stays queued unless a delay block is open (or its flush is in progress)
Inv_QueueOnlyWhileDelayed ==
    (DelayDepth = 0 /\ ~(\E k \in DOMAIN frames : frames[k].k = "flush")) => queue = <<>>

\* every message has exactly one fate; at rest (no frame, no block) all are settled
Inv_SettledAtRest ==
    (frames = <<>> /\ blocks = <<>>) => \A i \in 1..(next - 1) : fate[i] \in {"done", "dropped"}

\* each listener sees top-level broadcasts in the order they were made
TopLevel(i) == origin[i] = 0
Inv_TopLevelOrder ==
    \A a \in DOMAIN log, b \in DOMAIN log :
        (a < b /\ log[a][1] = log[b][1] /\ TopLevel(log[a][2]) /\ TopLevel(log[b][2])) => log[a][2] < log[b][2]

\* while any delay block is open nothing is delivered
Prop_NoDeliveryWhileDelayed == [][DelayDepth > 0 => log' = log]_vars

\* a broadcast made inside a handler is delivered (or dropped) before that handler returns
Prop_NestedBeforeReturn ==
    [][(frames # <<>> /\ Top.k = "handler" /\ Len(frames') < Len(frames)) =>
          \A i \in 1..(next - 1) : origin[i] = Len(frames) => fate[i] \in {"done", "dropped"}]_vars

\* witnesses (expected to be VIOLATED: they show that the interesting situations are reachable)
Witness_QueuedInHandler == ~(\E k \in DOMAIN frames : frames[k].k = "handler" /\ DelayDepth > 0 /\ queue # <<>>)
Witness_HandlerInFlush  == ~(\E j \in DOMAIN frames, k \in DOMAIN frames : j < k /\ frames[j].k = "flush" /\ frames[k].k = "handler" /\ DelayDepth > 0)
Witness_NestedDelay     == ~(DelayDepth >= 2 /\ queue # <<>>)

=============================================================================
