----------------------------------- MODULE Joins -----------------------------------
(* Requirement specification of key joins (property C11).

   Datasets are small tables of abstract keys (constant Table[d][col] = sequence of keys).
   A join connects two datasets on one or several key columns per side; the four shapes
   (1-1, n-n, 1-n, n-1) differ in what "the key of a row equals a key of a selected row"
   means.  A selection lives on one source dataset (src, sel = set of its rows) and can be
   evaluated only there.  What C11 requires, computed by TLC and exported in `exp`:

       exp[d] = the SET of admissible masks of dataset d: the source's own mask for d = src,
                otherwise, for every simple path of joins from d to src, the mask obtained
                by propagating key membership along it; {} means "incompatible".

   The code returns the result of the first usable neighbour, so any element of the set is
   accepted; an empty set requires IncompatibleAttribute (also on cyclic join graphs: the
   definition only follows simple paths, hence terminates).  The requirement is by VALUE of
   the keys: the harness stores the same abstract keys under different dtypes / string
   widths on the two sides of a join and the expected masks do not change.              *)
EXTENDS Naturals, Sequences, FiniteSets, TLC

CONSTANTS
    Dataset,     \* datasets
    Table,       \* Table[d][col] : sequence of keys, all columns of d equally long
    JoinMenu,    \* set of [id, a, ca, b, cb]: dataset a columns ca  ~  dataset b columns cb
    Selections,  \* set of [src, sel]
    MaxJoins

VARIABLES
    joins,    \* set of registered joins (at most one per pair of datasets)
    cur,      \* current selection [src, sel]
    exp,      \* dataset -> set of admissible masks
    act

jvars == <<joins, cur>>
vars == <<jvars, exp, act>>

Range(s) == {s[i] : i \in DOMAIN s}
Rows(d) == DOMAIN Table[d][CHOOSE c \in DOMAIN Table[d] : TRUE]
Pair(j) == {j.a, j.b}

(* neighbours of x: [n, cx, cn] with x's columns cx joined to n's columns cn *)
Nbrs(x, js) ==
    {[n |-> j.b, cx |-> j.ca, cn |-> j.cb] : j \in {k \in js : k.a = x}} \cup
    {[n |-> j.a, cx |-> j.cb, cn |-> j.ca] : j \in {k \in js : k.b = x}}

Key(d, cols, r) == [i \in DOMAIN cols |-> Table[d][cols[i]][r]]

(* rows of x whose key matches a key of the rows m of neighbour nb.n *)
JoinMask(x, nb, m) ==
    IF Len(nb.cx) = Len(nb.cn)
    THEN {r \in Rows(x) : \E q \in m : Key(x, nb.cx, r) = Key(nb.n, nb.cn, q)}            \* 1-1 and n-n
    ELSE IF Len(nb.cx) = 1
    THEN {r \in Rows(x) : \E q \in m : \E i \in DOMAIN nb.cn :
              Table[x][nb.cx[1]][r] = Table[nb.n][nb.cn[i]][q]}                              \* 1-n
    ELSE {r \in Rows(x) : \E q \in m : \E i \in DOMAIN nb.cx :
              Table[x][nb.cx[i]][r] = Table[nb.n][nb.cn[1]][q]}                              \* n-1

RECURSIVE Adm(_, _, _, _)
Adm(x, visited, js, s) ==
    IF x = s.src THEN {s.sel}
    ELSE UNION {{JoinMask(x, nb, m) : m \in Adm(nb.n, visited \cup {x}, js, s)} :
                   nb \in {k \in Nbrs(x, js) : k.n \notin visited}}

Exp(js, s) == TLCEval([d \in Dataset |-> Adm(d, {}, js, s)])

-----------------------------------------------------------------------------------------
A(op, j, s) == [op |-> op, j |-> j, s |-> s]
NoSel == CHOOSE s \in Selections : TRUE

Init ==
    /\ joins = {}
    /\ cur = NoSel
    /\ exp = Exp({}, NoSel)
    /\ act = A("Init", "-", NoSel)

(* registering a join between a pair that is already joined replaces the old join *)
AddJoin(j) ==
    /\ j \notin joins
    /\ Cardinality({k \in joins : Pair(k) # Pair(j)}) < MaxJoins
    /\ joins' = {k \in joins : Pair(k) # Pair(j)} \cup {j}
    /\ cur' = cur
    /\ exp' = Exp(joins', cur)
    /\ act' = A("AddJoin", j.id, cur)

RemoveJoin(j) ==
    /\ j \in joins
    /\ Len(j.ca) = 1 /\ Len(j.cb) = 1          \* only single-column joins have a removal API (JoinLink)
    /\ joins' = joins \ {j}
    /\ cur' = cur
    /\ exp' = Exp(joins', cur)
    /\ act' = A("RemoveJoin", j.id, cur)

Select(s) ==
    /\ s # cur
    /\ cur' = s
    /\ joins' = joins
    /\ exp' = Exp(joins, s)
    /\ act' = A("Select", "-", s)

Next ==
    \/ \E j \in JoinMenu : AddJoin(j)
    \/ \E j \in JoinMenu : RemoveJoin(j)
    \/ \E s \in Selections : Select(s)

Spec == Init /\ [][Next]_vars

-----------------------------------------------------------------------------------------
\* the source evaluates its own selection; unjoined datasets are incompatible
Inv_Source == exp[cur.src] = {cur.sel}
Inv_Isolated == \A d \in Dataset : (d # cur.src /\ Nbrs(d, joins) = {}) => exp[d] = {}
\* an empty selection propagates to empty masks only
Inv_EmptyStaysEmpty == cur.sel = {} => \A d \in Dataset : exp[d] \subseteq {{}}
\* connectedness decides compatibility
RECURSIVE Conn(_, _)
Conn(S, js) == LET T == S \cup {nb.n : nb \in UNION {Nbrs(x, js) : x \in S}} IN IF T = S THEN S ELSE Conn(T, js)
Inv_CompatibleIffConnected == \A d \in Dataset : (exp[d] # {}) <=> (cur.src \in Conn({d}, joins))

Witness_TwoPaths == ~(\E d \in Dataset : Cardinality(exp[d]) >= 2)
=============================================================================
