---------------------------------- MODULE LimitsHelper ----------------------------------
(* Attribute-dependent limits (glue.core.state_objects.StateAttributeLimitsHelper) - beyond the twenty listed
   properties; the helper sits behind the axis limits, colour and size limits of every viewer state.

   Abstract state: the current attribute, the current (lower, upper, percentile, log) and, per attribute that was
   current before, the settings remembered for it.  Required behaviour (docstring and code comments):
     - an attribute seen for the first time gets percentile = 100, log = FALSE and the limits of its data
     - switching back to an attribute restores exactly the settings it had when it was left
     - changing the percentile or the log flag recomputes the limits from the data of the current attribute
       (only positive values when log is set); with percentile "Custom" the limits are left alone
     - setting a limit by hand switches the percentile to "Custom" and keeps both limits
     - flip_limits swaps the two limits and changes nothing else
   Limits(a, p, log) is a constant: the data are equally spaced values for which every percentile used is an exact
   decimal; limits are integers in hundredths.                                                                   *)
EXTENDS Integers, FiniteSets, TLC

CONSTANTS Attr, Pct, Manual, Limits, MaxOps      \* Pct: percentile presets (numbers); Manual: values typed by hand

VARIABLES att, cur, cache, seen, nops, act
vars == <<att, cur, cache, seen, nops, act>>

Setting(lo, hi, p, log) == [lower |-> lo, upper |-> hi, percentile |-> p, log |-> log]
None == "none"
Custom == -1                                   \* the "Custom" percentile
Fresh(a) == Setting(Limits[a][100][FALSE][1], Limits[a][100][FALSE][2], 100, FALSE)
Recomputed(a, p, log) == Setting(Limits[a][p][log][1], Limits[a][p][log][2], p, log)
A(op, a, x) == [op |-> op, a |-> a, x |-> x]
Step == nops < MaxOps /\ nops' = nops + 1
Remember(s) == cache' = [cache EXCEPT ![att] = s] /\ UNCHANGED seen      \* every change is remembered under the current attribute

Init == att = None /\ cur = Setting(0, 0, 100, FALSE) /\ cache = [a \in Attr |-> Setting(0, 0, 100, FALSE)] /\ seen = {} /\ nops = 0 /\ act = A("Init", None, 0)

SetAttribute(a) ==
    /\ Step /\ a # att
    /\ att' = a
    /\ IF a \in seen
       THEN cur' = cache[a] /\ cache' = cache /\ seen' = seen
       ELSE cur' = Fresh(a) /\ cache' = [cache EXCEPT ![a] = Fresh(a)] /\ seen' = seen \cup {a}
    /\ act' = A("SetAttribute", a, 0)

SetPercentile(p) ==
    /\ Step /\ att # None /\ p # cur.percentile
    /\ cur' = IF p = Custom THEN [cur EXCEPT !.percentile = Custom] ELSE Recomputed(att, p, cur.log)
    /\ Remember(cur') /\ act' = A("SetPercentile", att, p) /\ UNCHANGED att

SetLog(b) ==
    /\ Step /\ att # None /\ b # cur.log
    /\ cur' = IF cur.percentile = Custom THEN [cur EXCEPT !.log = b] ELSE Recomputed(att, cur.percentile, b)
    /\ Remember(cur') /\ act' = A("SetLog", att, IF b THEN 1 ELSE 0) /\ UNCHANGED att

SetLower(x) ==
    /\ Step /\ att # None /\ x # cur.lower
    /\ cur' = [cur EXCEPT !.lower = x, !.percentile = Custom]
    /\ Remember(cur') /\ act' = A("SetLower", att, x) /\ UNCHANGED att

SetUpper(x) ==
    /\ Step /\ att # None /\ x # cur.upper
    /\ cur' = [cur EXCEPT !.upper = x, !.percentile = Custom]
    /\ Remember(cur') /\ act' = A("SetUpper", att, x) /\ UNCHANGED att

Flip ==
    /\ Step /\ att # None
    /\ cur' = [cur EXCEPT !.lower = cur.upper, !.upper = cur.lower]
    /\ Remember(cur') /\ act' = A("Flip", att, 0) /\ UNCHANGED att

Next == \/ \E a \in Attr : SetAttribute(a)
        \/ \E p \in Pct \cup {Custom} : SetPercentile(p)
        \/ \E b \in BOOLEAN : SetLog(b)
        \/ \E x \in Manual : SetLower(x) \/ SetUpper(x)
        \/ Flip
Spec == Init /\ [][Next]_vars

(* what is remembered for the current attribute is what is shown *)
Inv_CacheIsCurrent == att # None => cache[att] = cur
(* switching away and back changes nothing *)
Prop_RoundTrip == [][(act'.op = "SetAttribute" /\ act'.a \in seen) => cur' = cache[act'.a]]_vars
=============================================================================
