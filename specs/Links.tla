----------------------------------- MODULE Links -----------------------------------
(* Requirement specification of linked attributes (property C03).

   Abstract state: which datasets are in the collection, which (main) components each
   dataset owns, and the SET of registered links.  A link is a record
       [id, from (sequence of components), to (component), inv (has an inverse)]
   taken from a fixed menu (constant LinkMenu) that contains one-way, two-way, two-input,
   identity and cycle-closing links, several routes of different length to one target,
   and links inside one dataset.

   What C03 requires is a function of that state, computed here by TLC and exported in the
   variable `exp`:  for every dataset d of the collection and every component c,
       exp[d][c].depth    = length of a shortest chain of registered links (and inverses)
                            from d's own components to c     (0: own, Inf: unreachable)
       exp[d][c].choices  = the links (with direction) that can end such a shortest chain
   The harness turns `choices` into the set of admissible values by composing the link
   functions with scalar arithmetic, and requires: reachable <=> readable, value in the
   admissible set, selections on c select by those values, unreachable => incompatible,
   and the registered links / installed components mention no removed object.
   Link-manager updates may be delayed (DataCollection.delay_link_manager_update): the
   installed components are required when no such block is open.                        *)
EXTENDS Naturals, Sequences, FiniteSets, TLC

CONSTANTS
    Dataset,     \* datasets (strings)
    Comp,        \* all components that can exist (strings "d1.a"); Owner[c] its dataset
    Owner,
    Initial,     \* components every dataset starts with (subset of Comp)
    DependsOn,   \* DependsOn[c]: the attributes of the same dataset an internal derived attribute c is computed from ({} for stored ones)
    InitialColl, \* datasets in the collection at the start
    LinkMenu,    \* set of link records
    MaxDelay,
    MaxLinks     \* bound on simultaneously registered links

VARIABLES
    coll,     \* set of datasets in the collection
    comps,    \* set of components currently existing (on their owner)
    links,    \* set of registered links (records of LinkMenu)
    delay,    \* open delay_link_manager_update blocks
    exp,      \* what C03 requires (see above), for the datasets of the collection
    act

lvars == <<coll, comps, links, delay>>
vars == <<lvars, exp, act>>

Inf == 99
Range(s) == {s[i] : i \in DOMAIN s}
Mentions(l) == Range(l.from) \cup {l.to}

(* directed hyper-edges of a set of links: each link, and the inverse of each invertible one *)
Edges(ls) ==
    {[id |-> l.id, dir |-> "fwd", from |-> l.from, to |-> l.to] : l \in ls} \cup
    {[id |-> l.id, dir |-> "inv", from |-> <<l.to>>, to |-> l.from[1]] : l \in {x \in ls : x.inv /\ Len(x.from) = 1}} \cup
    \* a many-to-one helper with a backward function defines every one of its inputs from its output
    {[id |-> l.id, dir |-> (IF i = 1 THEN "inv1" ELSE "inv2"), from |-> <<l.to>>, to |-> l.from[i]] :
         l \in {x \in ls : x.inv /\ Len(x.from) = 2}, i \in {1, 2}}

Max(S) == CHOOSE x \in S : \A y \in S : y <= x
Min(S) == CHOOSE x \in S : \A y \in S : x <= y

Cost(e, D) == IF \E f \in Range(e.from) : D[f] = Inf THEN Inf ELSE 1 + Max({D[f] : f \in Range(e.from)})

(* Bellman-Ford on the hyper-graph: depth of every component as seen from a set of own components *)
RECURSIVE Relax(_, _, _)
Relax(D, es, k) ==
    IF k = 0 THEN D
    ELSE Relax(TLCEval([c \in Comp |-> Min({D[c]} \cup {Cost(e, D) : e \in {x \in es : x.to = c}})]), es, k - 1)

(* the defining link of a derived attribute is a link like any other: whoever reaches its inputs reaches the attribute *)
DefEdges(cs) == {[id |-> "def:" \o c, dir |-> "fwd", from |-> <<CHOOSE x \in DependsOn[c] : TRUE>>, to |-> c] :
                    c \in {x \in cs : DependsOn[x] # {} /\ DependsOn[x] \subseteq cs}}
AllEdges(ls, cs) == Edges(ls) \cup DefEdges(cs)
DepthFrom(own, ls, cs) == Relax(TLCEval([c \in Comp |-> IF c \in own THEN 0 ELSE Inf]), TLCEval(AllEdges(ls, cs)), Cardinality(Comp))

Own(d, cs) == {c \in cs : Owner[c] = d /\ DependsOn[c] = {}}        \* stored attributes; derived ones are one (defining) link away

ExpFor(d, cs, ls) ==
    LET D == TLCEval(DepthFrom(Own(d, cs), ls, cs)) IN
    TLCEval([c \in Comp |-> [depth |-> D[c],
                     choices |-> IF D[c] = 0 \/ D[c] = Inf THEN {}
                                 ELSE {<<e.id, e.dir>> : e \in {x \in AllEdges(ls, cs) : x.to = c /\ Cost(x, D) = D[c]}}]])

Exp(co, cs, ls) == TLCEval([d \in Dataset |-> IF d \in co THEN ExpFor(d, cs, ls) ELSE [c \in Comp |-> [depth |-> Inf, choices |-> {}]]])

-----------------------------------------------------------------------------------------
A(op, d, c, l, s) == [op |-> op, d |-> d, c |-> c, l |-> l, s |-> s]

Init ==
    /\ coll = InitialColl
    /\ comps = Initial
    /\ links = {}
    /\ delay = 0
    /\ exp = Exp(InitialColl, Initial, {})
    /\ act = A("Init", "-", "-", "-", {})

Usable(l, co, cs) == Mentions(l) \subseteq cs /\ \A c \in Mentions(l) : Owner[c] \in co

Finish(co, cs, ls) == exp' = Exp(co, cs, ls)

AppendData(d) ==
    /\ d \notin coll
    /\ coll' = coll \cup {d}
    /\ UNCHANGED <<comps, links, delay>>
    /\ Finish(coll', comps, links)
    /\ act' = A("AppendData", d, "-", "-", {})

(* a dataset leaving the collection takes with it every link that touches its components *)
RemoveData(d) ==
    /\ d \in coll
    /\ coll' = coll \ {d}
    /\ links' = {l \in links : \A c \in Mentions(l) : Owner[c] # d}
    /\ UNCHANGED <<comps, delay>>
    /\ Finish(coll', comps, links')
    /\ act' = A("RemoveData", d, "-", "-", {})

AddComponent(c) ==
    /\ c \notin comps
    /\ DependsOn[c] \subseteq comps
    /\ comps' = comps \cup {c}
    /\ UNCHANGED <<coll, links, delay>>
    /\ Finish(coll, comps', links)
    /\ act' = A("AddComponent", Owner[c], c, "-", {})

(* removing a component removes the derived attributes of the same dataset that are computed from it (transitively) and every
   link that mentions any of the removed attributes *)
RECURSIVE Gone(_, _)
Gone(R, cs) == LET T == R \cup {d \in cs : DependsOn[d] \cap R # {}} IN IF T = R THEN R ELSE Gone(T, cs)
RemoveComponent(c) ==
    /\ c \in comps
    /\ comps' = comps \ Gone({c}, comps)
    /\ links' = {l \in links : Mentions(l) \cap Gone({c}, comps) = {}}
    /\ UNCHANGED <<coll, delay>>
    /\ Finish(coll, comps', links')
    /\ act' = A("RemoveComponent", Owner[c], c, "-", {})

(* adding a link that is already registered changes nothing (links form a set) *)
AddLink(l) ==
    /\ Usable(l, coll, comps)
    /\ Cardinality(links \cup {l}) <= MaxLinks
    /\ links' = links \cup {l}
    /\ UNCHANGED <<coll, comps, delay>>
    /\ Finish(coll, comps, links')
    /\ act' = A("AddLink", "-", "-", l.id, {})

RemoveLink(l) ==
    /\ l \in links
    /\ links' = links \ {l}
    /\ UNCHANGED <<coll, comps, delay>>
    /\ Finish(coll, comps, links')
    /\ act' = A("RemoveLink", "-", "-", l.id, {})

SetLinks(ls) ==
    /\ ls # links
    /\ \A l \in ls : Usable(l, coll, comps)
    /\ links' = ls
    /\ UNCHANGED <<coll, comps, delay>>
    /\ Finish(coll, comps, links')
    /\ act' = A("SetLinks", "-", "-", "-", {l.id : l \in ls})

DelayEnter ==
    /\ delay < MaxDelay
    /\ delay' = delay + 1
    /\ UNCHANGED <<coll, comps, links, exp>>
    /\ act' = A("DelayEnter", "-", "-", "-", {})

DelayExit ==
    /\ delay > 0
    /\ delay' = delay - 1
    /\ UNCHANGED <<coll, comps, links, exp>>
    /\ act' = A("DelayExit", "-", "-", "-", {})

Next ==
    \/ \E d \in Dataset : AppendData(d)
    \/ \E d \in Dataset : RemoveData(d)
    \/ \E c \in Comp : AddComponent(c)
    \/ \E c \in Comp : RemoveComponent(c)
    \/ \E l \in LinkMenu : AddLink(l)
    \/ \E l \in LinkMenu : RemoveLink(l)
    \/ \E ls \in {{}} \cup {{l, m} : l \in LinkMenu, m \in LinkMenu} : SetLinks(ls)
    \/ DelayEnter
    \/ DelayExit

Spec == Init /\ [][Next]_vars

-----------------------------------------------------------------------------------------
(* properties of the requirement itself, checked by TLC *)

\* no registered link mentions a removed component or a dataset outside the collection
Inv_NoDangling == \A l \in links : Usable(l, coll, comps)

\* own components are at depth 0, and reachability is monotone in the set of links
Inv_OwnDepth0 == \A d \in coll : \A c \in Own(d, comps) : exp[d][c].depth = 0
Inv_Monotone == \A l \in links : \A d \in coll : \A c \in Comp :
                    ExpFor(d, comps, links \ {l})[c].depth >= exp[d][c].depth

\* a shortest chain ends with one of the admissible choices, whose inputs are strictly nearer
Inv_ChoicesSound ==
    \A d \in coll : \A c \in Comp :
        (exp[d][c].depth \notin {0, Inf}) =>
            /\ exp[d][c].choices # {}
            /\ \A ch \in exp[d][c].choices :
                 \E e \in AllEdges(links, comps) : e.id = ch[1] /\ e.dir = ch[2] /\ e.to = c /\
                     \A f \in Range(e.from) : exp[d][f].depth < exp[d][c].depth

\* witnesses (expected to be violated)
Witness_TwoRoutes == ~(\E d \in coll, c \in Comp : Cardinality(exp[d][c].choices) >= 2)
Witness_Depth3 == ~(\E d \in coll, c \in Comp : exp[d][c].depth = 3)
=============================================================================
