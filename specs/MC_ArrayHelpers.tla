---- MODULE MC_ArrayHelpers ----
EXTENDS ArrayHelpers
====
