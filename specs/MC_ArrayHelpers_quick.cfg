\* every pair of positive-step slices over lengths <= 6 (steps 1..3); every broadcast pattern of shapes <= 3x3x3;
\* every categorical array of length <= 4 over 3 symbols.
CONSTANTS
  MaxLen = 6
  MaxStep = 3
  MaxDim = 3
  MaxDimLen = 3
  Alphabet = {1, 2, 3}
  MaxCat = 4
INIT Init
NEXT Next
INVARIANT Inv_CombineWithinView
INVARIANT Inv_CodesPointBack
