---- MODULE MC_Collection ----
EXTENDS Collection
c_Sel == {{}, {0, 1}, {1, 2}}
c_Sel1 == {{0, 1}}
c_Sel2 == {{0, 1}, {1, 2}}
Depth6 == TLCGet("level") <= 7
Depth5 == TLCGet("level") <= 6
Depth7 == TLCGet("level") <= 8
Depth8 == TLCGet("level") <= 9
c_Fresh1 == <<"m1">>
c_Fresh0 == <<>>
c_Fresh2 == <<"m1", "m2">>
view == cvars
====
