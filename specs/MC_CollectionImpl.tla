---- MODULE MC_CollectionImpl ----
EXTENDS CollectionImpl
====
