\* CollectionImpl with FixAdd = TRUE, FixRemove = TRUE: 3 datasets, 3 groups, nested delay blocks, every history of <= 9 operations
CONSTANTS
  Data = {"d1", "d2", "d3"}
  MaxGroups = 3
  MaxDelay = 2
  MaxOps = 9
  FixAdd = TRUE
  FixRemove = TRUE
INIT Init
NEXT Next
INVARIANT Inv_Membership
INVARIANT Inv_QueueOnlyWhileDelayed
