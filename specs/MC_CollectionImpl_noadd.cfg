\* CollectionImpl with FixAdd = FALSE, FixRemove = TRUE: 2 datasets, 2 groups, nested delay blocks, every history of <= 7 operations
CONSTANTS
  Data = {"d1", "d2"}
  MaxGroups = 2
  MaxDelay = 2
  MaxOps = 7
  FixAdd = FALSE
  FixRemove = TRUE
INIT Init
NEXT Next
INVARIANT Inv_Membership
INVARIANT Inv_QueueOnlyWhileDelayed
