\* E0 thorough: Collection.tla, 3 datasets + 1 merge result, <=3 groups, 3 selections, 2 labels/colours, delay nesting 2.
CONSTANTS
  Data = {"d1", "d2", "d3"}
  Fresh <- c_Fresh1
  MaxGroups = 3
  Row = {0, 1, 2}
  Sel <- c_Sel
  Label = {"A", "B"}
  Color = {"c1"}
  MaxDelay = 2
INIT Init
NEXT Next
VIEW view
INVARIANT TypeOK
PROPERTY Prop_GroupsNeverReused
