---- MODULE MC_Commands ----
EXTENDS Commands
c_Leaf == {{0, 1}, {1, 2}}
c_Leaf1 == {{0, 1}}
c_Fresh0 == <<>>
c_ModeAll == {"Replace", "And", "Or", "Xor", "AndNot", "New"}
c_Mode3 == {"Replace", "Xor", "New"}
c_Mode2 == {"AndNot", "New"}
c_AllKinds == {"AddData", "RemoveData", "ApplySubsetState", "ApplyROI"}
c_ApplyOnly == {"ApplySubsetState"}
c_ApplyAdd == {"AddData", "ApplySubsetState"}
c_ModeXN == {"Xor", "New"}
c_ModeX == {"Xor"}
c_ApplyAddRemove == {"AddData", "RemoveData", "ApplySubsetState"}
D8 == TLCGet("level") <= 9
sview == svars
D4 == TLCGet("level") <= 5
D5 == TLCGet("level") <= 6
D6 == TLCGet("level") <= 7
D7 == TLCGet("level") <= 8
====
