\* E0: Commands.tla, 2 datasets, <=3 groups, 2 leaves, all 6 modes, MaxUndo 2, words to depth 6.
CONSTANTS
  Data = {"d1", "d2"}
  Fresh <- c_Fresh0
  MaxGroups = 3
  Row = {0, 1, 2}
  Sel <- c_Leaf
  Label = {"A"}
  Color = {"c1"}
  MaxDelay = 0
  Leaf <- c_Leaf
  Mode <- c_ModeAll
  CmdKinds <- c_AllKinds
  Setup = TRUE
  MaxUndo = 2
INIT SInit
NEXT SNext
VIEW sview
CONSTRAINT D6
INVARIANT STypeOK
PROPERTY Prop_UndoRestores
PROPERTY Prop_DoClearsRedo
