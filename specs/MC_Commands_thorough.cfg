\* E0 thorough: Commands.tla, 3 datasets, <=4 groups, 2 leaves, all 6 modes, MaxUndo 3, words to depth 7.
CONSTANTS
  Data = {"d1", "d2", "d3"}
  Fresh <- c_Fresh0
  MaxGroups = 4
  Row = {0, 1, 2}
  Sel <- c_Leaf
  Label = {"A"}
  Color = {"c1"}
  MaxDelay = 0
  Leaf <- c_Leaf
  Mode <- c_ModeAll
  CmdKinds <- c_AllKinds
  Setup = TRUE
  MaxUndo = 3
INIT SInit
NEXT SNext
VIEW sview
CONSTRAINT D7
INVARIANT STypeOK
PROPERTY Prop_UndoRestores
PROPERTY Prop_DoClearsRedo
