---- MODULE MC_Coords ----
EXTENDS Coords
c_Shapes == <<2, 3, 2>>
c_Trans == <<1, -2, 3>>
c_E3 == {-1, 0, 1}
c_E4 == {-1, 0, 1, 2}
====
