\* every invertible integer matrix with entries in {-1,0,1} in 1..3 dimensions (diagonal, triangular, permuted, fully coupled),
\* translation (1,-2,3), array shape (2,3,2) cut to the dimensionality.
CONSTANTS
  MaxDim = 3
  Entries <- c_E3
  Shapes3 <- c_Shapes
  Trans <- c_Trans
INIT Init
NEXT Next
INVARIANT Inv_DepSound
