---- MODULE MC_DataPickers ----
EXTENDS DataPickers
====
