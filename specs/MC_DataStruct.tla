---- MODULE MC_DataStruct ----
EXTENDS DataStruct
c_Main == {"a", "b", "c"}
c_Derived == {"x", "y", "z"}
c_Deps == [n \in c_Derived |-> CASE n = "x" -> {"a"} [] n = "y" -> {"a", "b"} [] n = "z" -> {"x"}]
c_Coords == {"none", "identity", "affine"}
view == svars
D3 == TLCGet("level") <= 4
D4 == TLCGet("level") <= 5
D5 == TLCGet("level") <= 6
D6 == TLCGet("level") <= 7
D7 == TLCGet("level") <= 8
====
