\* E0: DataStruct.tla, 3 stored + 3 derived attributes (x<-a, y<-a,b, z<-x), 2-d, 3 coordinate kinds; histories to depth 5.
CONSTANTS
  Main <- c_Main
  Derived <- c_Derived
  Deps <- c_Deps
  NDim = 2
  Coords <- c_Coords
  Labels = {"L1", "L2"}
  DupIds = {"d1", "d2"}
  DupOf = {"a", "x", "p1"}
INIT Init
NEXT Next
VIEW view
CONSTRAINT D5
INVARIANT Inv_OnePixelPerDim
INVARIANT Inv_WorldIffCoords
INVARIANT Inv_UniqueIds
INVARIANT Inv_DerivedHaveInputs
PROPERTY Prop_QuietMeansNoChange
PROPERTY Prop_RemoveExact
