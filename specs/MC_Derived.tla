---- MODULE MC_Derived ----
EXTENDS Derived
\* dataset of shape (2,3): f stored float (integers here), i stored int, p0/p1 pixel axes, w1 world axis 1 (= 3*p1 + p0 - 2), g derived (= f*2 + i)
c_Leaves == {"f", "i", "p0", "p1", "w1", "g"}
c_Consts == {"2", "3"}
c_ConstVal == [c \in c_Consts |-> IF c = "2" THEN 2 ELSE 3]
c_f == <<-2, 0, 1, 3, 4, 7>>
c_i == <<1, -1, 2, 0, 5, -3>>
c_p0 == <<0, 0, 0, 1, 1, 1>>
c_p1 == <<0, 1, 2, 0, 1, 2>>
c_LeafVals == [l \in c_Leaves |->
    CASE l = "f" -> c_f [] l = "i" -> c_i [] l = "p0" -> c_p0 [] l = "p1" -> c_p1
      [] l = "w1" -> [e \in 1..6 |-> 3 * c_p1[e] + c_p0[e] - 2]
      [] l = "g" -> [e \in 1..6 |-> c_f[e] * 2 + c_i[e]]]
c_Exact == {"+", "-", "*"}
c_Float == {"/", "**"}
====
