\* every expression tree of depth <= 2 over 6 attribute leaves (stored, pixel, world, derived) and 2 constants, ops + - * / **
CONSTANTS
  Leaves <- c_Leaves
  Consts <- c_Consts
  ConstVal <- c_ConstVal
  LeafVals <- c_LeafVals
  N = 6
  ExactOps <- c_Exact
  FloatOps <- c_Float
  Depth = 2
INIT Init
NEXT Next
INVARIANT Inv_WellFormed
