\* table/image x 6 column sets x {whole, empty, proper, full subset} x 5 formats
CONSTANTS
  N = 4
  Formats = {"csv", "fits_table", "votable", "hdf5", "gridded_fits"}
  ColKinds = {"float", "int", "text"}
INIT Init
NEXT Next
INVARIANT Inv_RowsSubset
PROPERTY Prop_StagesAreIdentities
