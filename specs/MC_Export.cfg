\* table/image x 6 column sets x {whole, empty, proper, full subset} x 5 formats x 3 value alphabets
CONSTANTS
  N = 4
  Formats = {"csv", "fits_table", "votable", "hdf5", "gridded_fits"}
  ColKinds = {"float", "int", "text"}
  Profiles = {"plain", "edge", "narrow"}
INIT Init
NEXT Next
INVARIANT Inv_RowsSubset
PROPERTY Prop_StagesAreIdentities
