---- MODULE MC_Export ----
EXTENDS Export
====
