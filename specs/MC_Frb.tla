---- MODULE MC_Frb ----
EXTENDS Frb
Src(shape, pi, s, o) == [shape |-> shape, pi |-> pi, s |-> s, o |-> o]
Fr(a, b, b2) == [ashape |-> a, b |-> b, b2 |-> b2]
c_Frames == {
    Fr(<<3, 4>>, Src(<<3, 4>>, <<1, 2>>, <<1, 1>>, <<0, 0>>),   Src(<<2, 3>>, <<1, 2>>, <<1, 1>>, <<0, -1>>)),    \* aligned; shifted
    Fr(<<3, 4>>, Src(<<4, 3>>, <<2, 1>>, <<1, 1>>, <<0, 0>>),   Src(<<2, 3>>, <<2, 1>>, <<1, -1>>, <<-1, 2>>)),   \* transposed; transposed+flipped
    Fr(<<3, 4>>, Src(<<5, 7>>, <<1, 2>>, <<2, 2>>, <<0, 1>>),   Src(<<3>>, <<2>>, <<1>>, <<-1>>)),                \* scaled x2; 1-d source along A axis 2
    Fr(<<3, 4>>, Src(<<2, 3>>, <<1, 2>>, <<-1, 1>>, <<2, 1>>),  Src(<<4>>, <<1>>, <<2>>, <<0>>)) }               \* flipped+offset; 1-d source along A axis 1
Sc(v) == [k |-> "scalar", v |-> v, lo |-> 0, step |-> 0, n |-> 1]
Rg(lo, step, n) == [k |-> "range", v |-> 0, lo |-> lo, step |-> step, n |-> n]
c_Bounds == <<
    <<Rg(-7, 8, 5), Rg(1, 8, 4)>>,       \* both ranged, partly outside (positions -7/8, 1/8, ...)
    <<Sc(8), Rg(-5, 4, 9)>>,             \* scalar + finer range
    <<Sc(16), Rg(-5, 4, 9)>>,            \* same range, other scalar (wildcard cache key)
    <<Rg(3, 8, 3), Sc(0)>>,              \* range + scalar
    <<Rg(67, 8, 2), Rg(1, 8, 2)>>,       \* wholly outside along axis 1
    <<Sc(13), Rg(1, 8, 4)>>,             \* non-integer scalar (1.625)
    <<Rg(-7, 8, 5), Sc(-5)>> >>          \* non-integer scalar outside (-0.625)
c_Whats == {"c1", "c2", "s1", "s2"}
view == <<frame, hist>>
====
