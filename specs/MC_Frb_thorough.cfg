\* 4 frame configurations x every sequence of <= 3 requests over 40 requests (2 sources x 4 targets x 5 bounds)
CONSTANTS
  Frames <- c_Frames
  Bounds <- c_Bounds
  Whats <- c_Whats
  MaxReq = 3
INIT Init
NEXT Next
INVARIANT Inv_NoTies
INVARIANT Inv_Sizes
