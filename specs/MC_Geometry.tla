---- MODULE MC_Geometry ----
EXTENDS Geometry
\* units: 1/20; lattice spacing 10 (half a unit); 17 x 17 points
Ang(name, cn, sn, cd) == [name |-> name, cn |-> cn, sn |-> sn, cd |-> cd]
A0 == Ang("0", 1, 0, 1)
c_Angles == {A0, Ang("q1", 0, 1, 1), Ang("q2", -1, 0, 1), Ang("q3", 0, -1, 1),
             Ang("q1p", 0, 1, 1), Ang("q1m", 0, 1, 1), Ang("q2m", -1, 0, 1), Ang("0p", 1, 0, 1),
             Ang("a345", 3, 4, 5), Ang("a345n", 3, -4, 5), Ang("a345q", -4, 3, 5), Ang("a51213", 5, 12, 13)}
c_AnglesQ == {A0, Ang("q1", 0, 1, 1), Ang("q2", -1, 0, 1), Ang("q1m", 0, 1, 1), Ang("a345", 3, 4, 5)}
R(k, x0, x1, y0, y1, xc, yc, rx, ry, th, poly) ==
    [k |-> k, x0 |-> x0, x1 |-> x1, y0 |-> y0, y1 |-> y1, xc |-> xc, yc |-> yc, rx |-> rx, ry |-> ry, th |-> th, poly |-> poly]
Rects(angles) == {R("rect", b[1], b[2], b[3], b[4], 0, 0, 0, 0, a, "-") :
                    b \in {<<-30, 30, -20, 20>>, <<-40, 0, -10, 50>>, <<0, 10, -60, 60>>, <<-30, -30, 0, 20>>}, a \in angles}
Circles == {R("circle", 0, 0, 0, 0, c[1], c[2], c[3], 0, A0, "-") : c \in {<<0, 0, 35>>, <<10, -20, 30>>, <<0, 0, 50>>, <<20, 20, 0>>}}
Ellipses(angles) == {R("ellipse", 0, 0, 0, 0, c[1], c[2], c[3], c[4], a, "-") :
                       c \in {<<0, 0, 40, 20>>, <<10, 10, 25, 25>>, <<-10, 0, 50, 5>>, <<0, 0, 20, 40>>, <<10, -10, 5, 45>>}, a \in angles}
Annuli == {R("annulus", 0, 0, 0, 0, 0, 0, 50, 20, A0, "-"), R("annulus", 0, 0, 0, 0, 10, -10, 30, 10, A0, "-")}
Ranges == {R("xrange", -25, 35, 0, 0, 0, 0, 0, 0, A0, "-"), R("yrange", 0, 0, -40, -10, 0, 0, 0, 0, A0, "-"),
           R("xrange", 10, 10, 0, 0, 0, 0, 0, 0, A0, "-")}
Polys(angles) == {R("poly", 0, 0, 0, 0, c[1], c[2], 0, 0, a, n) : n \in {"sq", "sqc", "cross", "tri"}, c \in {<<0, 0>>, <<10, -20>>}, a \in angles}
c_PolyVerts == [n \in {"sq", "sqc", "cross", "tri"} |->
    CASE n = "sq"  -> <<<<-20, -20>>, <<20, -20>>, <<20, 20>>, <<-20, 20>>>>
      [] n = "sqc" -> <<<<-20, -20>>, <<20, -20>>, <<20, 20>>, <<-20, 20>>, <<-20, -20>>>>
      [] n = "cross" -> <<<<10, 10>>, <<10, 30>>, <<-10, 30>>, <<-10, 10>>, <<-30, 10>>, <<-30, -10>>, <<-10, -10>>, <<-10, -30>>,
                          <<10, -30>>, <<10, -10>>, <<30, -10>>, <<30, 10>>>>
      [] n = "tri" -> <<<<-30, -20>>, <<30, -20>>, <<0, 40>>>>]
c_AnglesE == {a \in c_Angles : a.cd <= 5}
c_Regions == Rects(c_Angles) \cup Circles \cup Ellipses(c_AnglesE) \cup Annuli \cup Ranges \cup Polys(c_AnglesQ)
c_RegionsQ == Rects(c_AnglesQ) \cup Circles \cup Ellipses(c_AnglesQ) \cup Annuli \cup Ranges \cup Polys(c_AnglesQ)
c_Centres == {<<0, 0>>, <<10, -20>>, <<-35, 15>>}
====
