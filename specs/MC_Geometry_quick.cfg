\* regions on the 1/20 lattice (4 rectangles incl. thin and degenerate, 4 circles, 3 ellipses, 2 annuli, 3 ranges, 4 polygons x 2 centres)
\* x 5 angle classes, action sequences of length <= 2 (move to 3 centres, rotate to 5 classes, copy, save/restore, polygon, transpose), 17x17 points
CONSTANTS
  Regions <- c_RegionsQ
  Angles <- c_AnglesQ
  Centres <- c_Centres
  Grid = 8
  Step = 10
  PolyVerts <- c_PolyVerts
  MaxActs = 2
INIT Init
NEXT Next
INVARIANT Inv_InsideBandDisjoint
INVARIANT Inv_CentreInsideConvex
PROPERTY Prop_MoveTranslates
