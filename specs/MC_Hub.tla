---- MODULE MC_Hub ----
EXTENDS Hub
c_Class == {"M", "M1", "M2", "M3"}
c_Parent == [c \in c_Class |-> CASE c = "M" -> "none" [] c = "M1" -> "M" [] c = "M2" -> "M1" [] c = "M3" -> "M"]
c_Class3 == {"M", "M1", "M2"}
c_Parent3 == [c \in c_Class3 |-> CASE c = "M" -> "none" [] c = "M1" -> "M" [] c = "M2" -> "M1"]
c_Class2 == {"M", "M1"}
c_Parent2 == [c \in c_Class2 |-> IF c = "M" THEN "none" ELSE "M"]
====
