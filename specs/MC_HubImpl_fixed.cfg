\* E0 on the implementation-shaped spec, Fixed = TRUE (fixed design). Same bounds as MC_Hub_quick.cfg.
CONSTANTS
  Listener = {"L1", "L2"}
  Class <- c_Class2
  Parent <- c_Parent2
  Prio = {1, 2}
  Filter = {"all"}
  MaxMsg = 2
  MaxFrames = 6
  MaxBlocks = 2
  MaxSetup = 2
  MaxLate = 1
  MaxNested = 3
  Fixed = TRUE
  DistinctPrio = FALSE
INIT Init
NEXT Next
VIEW view
INVARIANT TypeOK
INVARIANT Inv_ExactlyOnce
INVARIANT Inv_QueueOnlyWhileDelayed
INVARIANT Inv_SettledAtRest
INVARIANT Inv_TopLevelOrder
INVARIANT Inv_FlagAgreesWithBlocks
PROPERTY Prop_NoDeliveryWhileDelayed
PROPERTY Prop_NestedBeforeReturn
