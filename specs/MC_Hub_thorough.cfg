\* E0 thorough: 2 listeners, 3 classes (M > M1 > M2), 2 priorities, filters all/tag, <=2 setup subscriptions,
\* <=2 messages, <=1 late (un)subscription, <=2 nested calls, blocks <=2.
CONSTANTS
  Listener = {"L1", "L2"}
  Class <- c_Class3
  Parent <- c_Parent3
  Prio = {1, 2}
  Filter = {"all", "tag"}
  MaxMsg = 2
  MaxFrames = 6
  MaxBlocks = 2
  MaxSetup = 2
  MaxLate = 1
  MaxNested = 2
  DistinctPrio = FALSE
INIT Init
NEXT Next
VIEW view
INVARIANT TypeOK
INVARIANT Inv_ExactlyOnce
INVARIANT Inv_QueueOnlyWhileDelayed
INVARIANT Inv_SettledAtRest
INVARIANT Inv_TopLevelOrder
PROPERTY Prop_NoDeliveryWhileDelayed
PROPERTY Prop_NestedBeforeReturn
