---- MODULE MC_Joins ----
EXTENDS Joins
c_Dataset == {"d1", "d2", "d3", "d4", "d5"}
c_Table == [d \in c_Dataset |->
    CASE d = "d1" -> [p |-> <<1, 1, 2>>, q |-> <<2, 3, 3>>]
      [] d = "d2" -> [p |-> <<1, 2, 3>>, q |-> <<3, 3, 1>>]
      [] d = "d3" -> [p |-> <<2, 2, 1>>, q |-> <<1, 3, 2>>, t |-> <<11, 12, 13>>]     \* t is stored as text: equals no numeric key
      [] d = "d4" -> [p |-> <<3, 1, 1>>, q |-> <<2, 2, 3>>]
      [] d = "d5" -> [p |-> <<1, 3, 1>>, q |-> <<3, 1, 1>>]]          \* keys 1 and 3 only (stored narrower than d2 in one variant)
J(id, a, ca, b, cb) == [id |-> id, a |-> a, ca |-> ca, b |-> b, cb |-> cb]
c_Menu == {
    J("J1", "d1", <<"p">>, "d2", <<"p">>),
    J("J2", "d2", <<"q">>, "d3", <<"p">>),
    J("J3", "d3", <<"q">>, "d1", <<"q">>),
    J("J4", "d1", <<"p", "q">>, "d2", <<"p", "q">>),
    J("J5", "d2", <<"p">>, "d3", <<"p", "q">>),
    J("J6", "d3", <<"p", "q">>, "d4", <<"p">>),
    J("J7", "d4", <<"q">>, "d1", <<"p">>),
    J("J8", "d2", <<"p", "q">>, "d4", <<"q", "p">>),
    J("J9", "d2", <<"p">>, "d3", <<"p", "t">>),
    J("J10", "d5", <<"p", "q">>, "d2", <<"p", "q">>) }      \* one key against a numeric and a text column
c_Sel == {[src |-> "d1", sel |-> {}], [src |-> "d1", sel |-> {1}], [src |-> "d1", sel |-> {2, 3}],
          [src |-> "d2", sel |-> {2}], [src |-> "d3", sel |-> {1, 3}], [src |-> "d4", sel |-> {1, 2, 3}]}
view == jvars
D5 == TLCGet("level") <= 6
D6 == TLCGet("level") <= 7
====
