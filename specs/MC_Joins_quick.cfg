\* E0: Joins.tla, 4 datasets x 3 rows x 2 key columns, menu of 8 joins (all four shapes, cycles), 6 selections; all reachable states.
CONSTANTS
  Dataset <- c_Dataset
  Table <- c_Table
  JoinMenu <- c_Menu
  Selections <- c_Sel
  MaxJoins = 4
INIT Init
NEXT Next
VIEW view
INVARIANT Inv_Source
INVARIANT Inv_Isolated
INVARIANT Inv_EmptyStaysEmpty
INVARIANT Inv_CompatibleIffConnected
