---- MODULE MC_LimitsHelper ----
EXTENDS LimitsHelper
\* data, in hundredths: attribute "u" = 0, 5, ..., 100 (21 equally spaced values), attribute "v" = -40, -30, ..., 60 (11 values)
\* percentile q of n equally spaced values lo..hi is lo + q/100 * (hi - lo); log = positive values only
c_Attr == {"u", "v"}
c_Manual == {1234, -250}
Lim(lo, hi, p) == <<lo + ((100 - p) * (hi - lo)) \div 200, hi - ((100 - p) * (hi - lo)) \div 200>>
c_Limits == [a \in c_Attr |-> [p \in {100, 90, 80} |-> [log \in BOOLEAN |->
                CASE a = "u" /\ ~log -> Lim(0, 10000, p)
                  [] a = "u" /\ log  -> Lim(500, 10000, p)          \* positive values: 5 .. 100
                  [] a = "v" /\ ~log -> Lim(-4000, 6000, p)
                  [] a = "v" /\ log  -> Lim(1000, 6000, p)]]]        \* positive values: 10 .. 60
====
