---- MODULE MC_Links ----
EXTENDS Links
c_Dataset == {"d1", "d2", "d3"}
c_Comp == {"d1.a", "d1.b", "d1.c", "d2.a", "d2.b", "d3.a", "d3.b"}
\* d1.c is a derived attribute of d1, computed from d1.a
c_DependsOn == [c \in c_Comp |-> IF c = "d1.c" THEN {"d1.a"} ELSE {}]
c_Owner == [c \in c_Comp |-> CASE c \in {"d1.a", "d1.b", "d1.c"} -> "d1" [] c \in {"d2.a", "d2.b"} -> "d2" [] OTHER -> "d3"]
c_Initial == {"d1.a", "d1.b", "d2.a", "d2.b", "d3.a"}
L(id, from, to, inv) == [id |-> id, from |-> from, to |-> to, inv |-> inv]
c_Menu == {
    L("L1", <<"d1.a">>, "d2.a", TRUE),          \* two-way
    L("L2", <<"d2.a">>, "d3.a", FALSE),         \* one-way, continues the chain
    L("L3", <<"d1.b">>, "d3.a", TRUE),          \* second, shorter route to d3.a
    L("L4", <<"d1.a", "d1.b">>, "d2.b", FALSE), \* two inputs
    L("L5", <<"d3.a">>, "d1.a", FALSE),         \* closes a cycle
    L("L6", <<"d2.b">>, "d3.b", TRUE),          \* identity (LinkSame)
    L("L7", <<"d2.a">>, "d2.b", FALSE),         \* inside one dataset
    L("L8", <<"d3.b">>, "d1.b", TRUE),
    L("L9", <<"d2.a", "d3.a">>, "d1.b", FALSE),   \* two inputs owned by different datasets
    L("L10", <<"d1.a", "d1.b">>, "d2.b", TRUE),
    L("L11", <<"d1.c">>, "d3.b", TRUE) }          \* a two-way link from a derived attribute of d1  \* many-to-one helper (MultiLink) with a backward function: d2.b defines d1.a and d1.b
c_MenuSmall == {l \in c_Menu : l.id \in {"L1", "L2", "L3", "L4", "L6"}}
c_All == c_Dataset
c_None == {}
c_AllComp == c_Comp
view == <<lvars>>
D3 == TLCGet("level") <= 4
D4 == TLCGet("level") <= 5
D5 == TLCGet("level") <= 6
D6 == TLCGet("level") <= 7
====
