\* E0: Links.tla, 3 datasets x 2 components, menu of 8 links, at most 4 registered at once, delay nesting 1; all reachable states.
CONSTANTS
  Dataset <- c_Dataset
  Comp <- c_Comp
  Owner <- c_Owner
  DependsOn <- c_DependsOn
  Initial <- c_Initial
  InitialColl <- c_None
  LinkMenu <- c_Menu
  MaxDelay = 1
  MaxLinks = 4
INIT Init
NEXT Next
VIEW view
INVARIANT Inv_NoDangling
INVARIANT Inv_OwnDepth0
INVARIANT Inv_Monotone
INVARIANT Inv_ChoicesSound
