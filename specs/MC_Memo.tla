---- MODULE MC_Memo ----
EXTENDS Memo
c_Trees == {"A", "and(A,B)", "not(A)", "mor(A,B)", "or(not(A),B)", "xor(and(A,B),A)"}
c_SlotsOf == [t \in c_Trees |-> IF t \in {"A", "not(A)"} THEN {"A"} ELSE {"A", "B"}]
c_Evals == {"mask", "maskview", "subset", "stat", "hist", "linkedvalue", "layerhist", "statsample"}
====
