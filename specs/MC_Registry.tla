---- MODULE MC_Registry ----
EXTENDS Registry
====
