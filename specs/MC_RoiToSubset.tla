---- MODULE MC_RoiToSubset ----
EXTENDS RoiToSubset
Ang(name, cn, sn, cd) == [name |-> name, cn |-> cn, sn |-> sn, cd |-> cd]
A0 == Ang("0", 1, 0, 1)
R(k, x0, x1, y0, y1, xc, yc, rx, ry, th, poly) ==
    [k |-> k, x0 |-> x0, x1 |-> x1, y0 |-> y0, y1 |-> y1, xc |-> xc, yc |-> yc, rx |-> rx, ry |-> ry, th |-> th, poly |-> poly]
Edges == {-15, -5, 5, 15, 25, 35, 45}
XR == {R("xrange", a, b, 0, 0, 0, 0, 0, 0, A0, "-") : a \in Edges, b \in Edges} 
YR == {R("yrange", 0, 0, a, b, 0, 0, 0, 0, A0, "-") : a \in Edges, b \in Edges}
RE == {R("rect", a, b, c, d, 0, 0, 0, 0, A0, "-") : a \in {-15, 5, 15}, b \in {5, 25, 45}, c \in {-5, 15}, d \in {15, 35}}
CI == {R("circle", 0, 0, 0, 0, c[1], c[2], c[3], 0, A0, "-") : c \in {<<20, 20, 15>>, <<20, 20, 25>>, <<10, 30, 22>>, <<0, 0, 45>>}}
EL == {R("ellipse", 0, 0, 0, 0, c[1], c[2], c[3], c[4], A0, "-") : c \in {<<20, 20, 35, 12>>, <<30, 10, 12, 35>>}}
PO == {R("poly", 0, 0, 0, 0, c[1], c[2], 0, 0, A0, n) : n \in {"tri", "cross", "sq"}, c \in {<<20, 20>>, <<15, 5>>, <<25, 35>>}}
c_R2 == {r \in XR \cup YR : (r.k = "xrange" /\ r.x0 < r.x1) \/ (r.k = "yrange" /\ r.y0 < r.y1)} \cup {r \in RE : r.x0 < r.x1 /\ r.y0 < r.y1} \cup CI \cup EL \cup PO
c_PolyVerts == [n \in {"sq", "cross", "tri"} |->
    CASE n = "sq"  -> <<<<-20, -20>>, <<20, -20>>, <<20, 20>>, <<-20, 20>>>>
      [] n = "cross" -> <<<<10, 10>>, <<10, 30>>, <<-10, 30>>, <<-10, 10>>, <<-30, 10>>, <<-30, -10>>, <<-10, -10>>, <<-10, -30>>,
                          <<10, -30>>, <<10, -10>>, <<30, -10>>, <<30, 10>>>>
      [] n = "tri" -> <<<<-30, -20>>, <<30, -20>>, <<0, 40>>>>]
c_NumPos == {-10, 0, 10, 20, 30, 40, 50}
c_CatSets == {{}, {0}, {1, 2}, {0, 2}, {0, 1, 2, 3}}
====
