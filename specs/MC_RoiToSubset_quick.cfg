\* 100+ regions (x/y ranges swept over the quarter grid, rectangles, circles, ellipses, polygons, category sets) x 4 axis-kind pairs x 1..4 categories
CONSTANTS
  Regions = {}
  Angles = {}
  Centres = {}
  Grid = 1
  Step = 10
  PolyVerts <- c_PolyVerts
  MaxActs = 0
  R2Regions <- c_R2
  NumPos <- c_NumPos
  MaxCat = 4
  CatSets <- c_CatSets
INIT Init
NEXT Next2
INVARIANT Inv_InsideBandDisjoint
