---- MODULE MC_Session ----
EXTENDS Session, Session_Gen
D3 == TLCGet("level") <= 4
D4 == TLCGet("level") <= 5
====
