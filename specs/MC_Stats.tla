---- MODULE MC_Stats ----
EXTENDS Stats
c_Vals == <<3, 1000, -1, 4, 1001, 0, 2, -2, 5, 1, 1002, 6, 7, -3, 8, 9>>
Sl(b, e, s) == [b |-> b, e |-> e, s |-> s]
c_Shapes == {<<4>>, <<2, 3>>, <<3, 2>>, <<2, 2, 3>>}
c_ShapesT == c_Shapes \cup {<<2, 2, 2, 2>>, <<3, 4>>}
Views1(shape) == {<<>>, <<Sl(1, shape[1], 1)>>, <<Sl(0, shape[1], 2)>>}
ViewsN(shape) == Views1(shape) \cup {<<Sl(0, shape[1], 1), Sl(1, shape[2], 1)>>, <<Sl(0, 1, 1), Sl(0, shape[2], 2)>>}
c_ViewsOf == [shape \in c_ShapesT |-> IF Len(shape) = 1 THEN Views1(shape) ELSE ViewsN(shape)]
Sel(k, s, box) == [k |-> k, s |-> s, box |-> box]
N(shape) == Size(shape)
BoxFull(shape) == [k \in 1..Len(shape) |-> IF k = Len(shape) THEN <<1, shape[k]>> ELSE IF k = Len(shape) - 1 THEN <<0, 1>> ELSE <<0, shape[k]>>]
BoxFor(shape) == [k \in 1..Len(shape) |-> IF k = Len(shape) THEN <<1, shape[k]>> ELSE <<0, 1>>]
c_SelsOf == [shape \in c_ShapesT |->
    {Sel("none", {}, <<>>), Sel("set", {}, <<>>), Sel("set", {N(shape) - 1}, <<>>), Sel("set", {2, 3}, <<>>),
     Sel("set", {p \in 0..(N(shape) - 1) : p % 2 = 1}, <<>>), Sel("box", {}, BoxFor(shape)), Sel("box", {}, BoxFull(shape))}]
H(vals, sel, lo, hi, n, log) == [vals |-> vals, sel |-> sel, lo |-> lo, hi |-> hi, n |-> n, log |-> log]
c_HVals == <<0, 1, 2, 2, 3, 4, 1000, 5, -1, 8>>
c_Hist == {H(c_HVals, sel, lo, hi, n, log) :
              sel \in {1..10, {}, {2, 3, 4, 7}, {1, 5, 6, 10}}, lo \in {0, 1, 4, -2}, hi \in {4, 0, 8, 5, -1}, n \in 1..4, log \in {FALSE}}
          \cup {H(<<0, 2, 4, 2, 1000, 6>>, sel, lo, hi, n, TRUE) : sel \in {1..6, {2, 3, 6}}, lo \in {-1, 7}, hi \in {7, -1}, n \in {1, 2, 4}}
====
