\* shapes (4), (2,3), (3,2), (2,2,3); 3-5 views; all axis subsets; 6 selections; positive on/off; ~1000 histogram configurations
CONSTANTS
  Shapes <- c_Shapes
  Vals <- c_Vals
  ViewsOf <- c_ViewsOf
  SelsOf <- c_SelsOf
  HistCfgs <- c_Hist
INIT Init
NEXT Next
INVARIANT Inv_KeptDisjoint
INVARIANT Inv_HistTotals
