---- MODULE MC_SubsetAlgebra ----
EXTENDS SubsetAlgebra
c_LeafSeq == <<"s1", "s2", "s3">>
c_Modes == {"Replace", "And", "Or", "Xor", "AndNot"}
D2 == TLCGet("level") <= 3
D3 == TLCGet("level") <= 4
D4 == TLCGet("level") <= 5
====
