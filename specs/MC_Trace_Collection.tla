---- MODULE MC_Trace_Collection ----
EXTENDS Trace_Collection
c_NoFresh == <<>>
c_Sel == {{}}
====
