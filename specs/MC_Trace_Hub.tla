---- MODULE MC_Trace_Hub ----
EXTENDS Trace_Hub
====
