---- MODULE MC_Trace_Viewer ----
EXTENDS Trace_Viewer
c_NoAttr == {}
c_NoFilter == {}
====
