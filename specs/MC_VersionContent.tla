---- MODULE MC_VersionContent ----
EXTENDS VersionContent, Versions_Gen
c_Features == {"style", "meta", "uuid", "join11", "joinNN", "derived", "extlink", "helper", "group", "sgcount", "coords", "categorical", "subset"}
====
