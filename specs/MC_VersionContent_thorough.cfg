\* every registered (Data, DataCollection) version pair x feature sets (quick: |F| <= 2 or >= 12; thorough: all 8192)
CONSTANTS
  DataVers <- g_DataVers
  DCVers <- g_DCVers
  Features <- c_Features
  MaxSmall = 13
  MinLarge = 0
INIT Init
NEXT Next
INVARIANT Inv_Monotone
INVARIANT Inv_NewestCarriesAll
INVARIANT Inv_ExpWithin
