\* (a) every sequence of <= 5 calls over 2 keys and versions 0..3; (b) invariants over the extracted registries and rename table
CONSTANTS
  Keys = {"k1", "k2"}
  MaxV = 3
  MaxCalls = 5
  Reg <- g_Reg
  Patch <- g_Patch
  Defined <- g_Defined
  InPkg <- g_InPkg
  Importable <- g_Importable
INIT Init
NEXT Next
INVARIANT Inv_ConsecutiveFromOne
PROPERTY Prop_WriteOnce
INVARIANT Reg_Consecutive
INVARIANT Reg_LoaderForEverySaver
INVARIANT Patch_Functional
INVARIANT Patch_Terminates
INVARIANT Patch_TargetsResolve
