---- MODULE MC_Versions ----
EXTENDS Versions, Versions_Gen
\* exported for the harness (printed once when TLC evaluates the assumption)
ASSUME PrintT(<<"TERMINALS", Terminals>>)
====
