---- MODULE MC_Versions ----
EXTENDS Versions, Versions_Gen
====
