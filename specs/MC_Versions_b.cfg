\* (b) alone: the invariants over the registries and the rename table extracted from the tree (one run per clause so that
\* each violated clause is reported)
CONSTANTS
  Keys = {"k1"}
  MaxV = 1
  MaxCalls = 0
  Reg <- g_Reg
  Patch <- g_Patch
  Defined <- g_Defined
  InPkg <- g_InPkg
  Importable <- g_Importable
INIT Init
NEXT Next
