\* the no-capture clause alone (run separately so that a known finding on it does not hide the other clauses)
CONSTANTS
  Keys = {"k1"}
  MaxV = 1
  MaxCalls = 0
  Reg <- g_Reg
  Patch <- g_Patch
  Defined <- g_Defined
  InPkg <- g_InPkg
  Importable <- g_Importable
INIT Init
NEXT Next
INVARIANT Patch_NoCapture
