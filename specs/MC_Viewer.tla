---- MODULE MC_Viewer ----
EXTENDS Viewer
At(n, k) == [n |-> n, k |-> k]
c_AttrMenu == {At("b", "num"), At("c", "cat"), At("x", "derived"), At("t", "time")}
F(n, c, d) == [numeric |-> n, categorical |-> c, derived |-> d, datetime |-> TRUE]
G(n, c, d, t) == [numeric |-> n, categorical |-> c, derived |-> d, datetime |-> t]
c_Filters == {F(TRUE, TRUE, TRUE), F(TRUE, FALSE, TRUE), F(FALSE, TRUE, TRUE), F(TRUE, TRUE, FALSE), F(FALSE, FALSE, TRUE),
              G(TRUE, TRUE, TRUE, FALSE), G(FALSE, FALSE, TRUE, TRUE)}     \* the datetime flag differing from the numeric one
D5 == TLCGet("level") <= 6
D4 == TLCGet("level") <= 5
D6 == TLCGet("level") <= 7
====
