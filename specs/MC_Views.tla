---- MODULE MC_Views ----
EXTENDS Views
====
