\* every (shape, view): shapes up to 3-d with lengths <= 3, curated items (ints 0/n-1, 7 slices incl. empty and stepped),
\* index arrays of length <= 2, 6 masks.
CONSTANTS
  MaxDim = 3
  MaxLen = 3
  FullItems = FALSE
  MaxStep = 2
  MaxArr = 2
INIT Init
NEXT Next
INVARIANT Inv_SizesAgree
INVARIANT Inv_InBounds
INVARIANT Inv_TupleInjective
INVARIANT Inv_WholeIdentity
