\* every (shape, view): shapes up to 3-d with lengths <= 3, EVERY integer and every slice 0<=b,e<=n with step 1..2,
\* index arrays of length <= 2, 6 masks.
CONSTANTS
  MaxDim = 3
  MaxLen = 3
  FullItems = TRUE
  MaxStep = 2
  MaxArr = 2
INIT Init
NEXT Next
INVARIANT Inv_SizesAgree
INVARIANT Inv_InBounds
INVARIANT Inv_TupleInjective
INVARIANT Inv_WholeIdentity
