------------------------------------- MODULE Memo -------------------------------------
(* Requirement specification "results are never stale" (property C05).

   Abstract state (versions, not values): the version of the dataset's numerical values,
   its shape variant, the parameter version of each leaf of the selection (region position,
   bounds, operand, index list ...), and whether a link to a second dataset is registered.
   The selection is one tree out of a menu, attached to the dataset (as a subset of a
   subset group) or free-standing.

       Evaluate(kind)   has NO effect on the state; its required result is a function of
                        the current state only: what freshly built, never evaluated objects
                        at the same versions return
       mutations        bump a version (replace values, refresh from another dataset with
                        the same or a new shape, move / edit / set the parameters of a leaf
                        - also of a leaf inside a composite -, add / remove the link)

   TLC enumerates the interleavings of evaluations and mutations; the harness performs each
   on long-lived real objects and, for every evaluation, rebuilds fresh objects from the
   abstract state and compares.  MemoImpl.tla models the memo caches of the code.        *)
EXTENDS Naturals, Sequences, FiniteSets, TLC

CONSTANTS
    Trees,       \* menu of tree shapes (strings)
    Slots,       \* leaf slots, e.g. {"A", "B"}
    SlotsOf,     \* SlotsOf[tree] : slots the tree uses
    EvalKinds,   \* kinds of evaluation
    Hows,        \* ways of mutating a leaf: "move", "edit", "set"
    MaxEval, MaxMut, MaxVer

VARIABLES tree, attached, dver, shape, pver, linked, vs, nev, nmut, seen, act
\* seen: which results were requested so far (history: this is what a cache can depend on, so histories that differ
\* in it must not be merged when behaviours are generated)
vars == <<tree, attached, dver, shape, pver, linked, vs, nev, nmut, seen, act>>
avars == <<tree, attached, dver, shape, pver, linked, vs>>

A(op, a, b) == [op |-> op, a |-> a, b |-> b]

Init ==
    /\ tree = "none"
    /\ attached = "free"
    /\ dver = 0
    /\ shape = "s1"
    /\ pver = [s \in Slots |-> 0]
    /\ linked = "none"
    /\ vs = [log |-> FALSE, nbin |-> 4]
    /\ nev = 0
    /\ nmut = 0
    /\ seen = {}
    /\ act = A("Init", "-", "-")

(* how the selection lives: attached to the dataset as a subset of a group, free-standing with the dataset in a
   collection, or free-standing with a dataset that is in no collection at all (no hub) *)
Setup(t, att) ==
    /\ tree = "none"
    /\ tree' = t
    /\ attached' = att
    /\ act' = A("Setup", t, att)
    /\ UNCHANGED <<dver, shape, pver, linked, vs, nev, nmut, seen>>

Evaluate(k) ==
    /\ tree # "none"
    /\ nev < MaxEval
    /\ nev' = nev + 1
    /\ seen' = seen \cup {<<k, dver, shape, pver, linked, vs>>}      \* with the context it was evaluated in: a cache can only be stale
                                                                  \* if something was evaluated under an EARLIER context
    /\ act' = A("Evaluate", k, "-")
    /\ UNCHANGED <<avars, nmut>>

Mut == tree # "none" /\ nmut < MaxMut /\ nmut' = nmut + 1 /\ seen' = seen

UpdateComponents ==
    /\ Mut
    /\ dver < MaxVer
    /\ dver' = dver + 1
    /\ act' = A("UpdateComponents", "-", "-")
    /\ UNCHANGED <<tree, attached, shape, pver, linked, vs, nev>>

UpdateFromData(newshape) ==
    /\ Mut
    /\ dver < MaxVer
    /\ dver' = dver + 1
    /\ shape' = IF newshape THEN (IF shape = "s1" THEN "s2" ELSE "s1") ELSE shape
    /\ act' = A("UpdateFromData", IF newshape THEN "newshape" ELSE "same", "-")
    /\ UNCHANGED <<tree, attached, pver, linked, vs, nev>>

MutateLeaf(s, how) ==
    /\ Mut
    /\ s \in SlotsOf[tree]
    /\ pver[s] < MaxVer
    /\ pver' = [pver EXCEPT ![s] = @ + 1]
    /\ act' = A("MutateLeaf", s, how)
    /\ UNCHANGED <<tree, attached, dver, shape, linked, vs, nev>>

(* the link between the two datasets: none, L1 or L2 - two different functions defining the same attribute, so that
   replacing one by the other keeps the set of reachable attributes and changes only the values *)
SetLink(k) ==
    /\ Mut
    /\ attached # "standalone"
    /\ k # linked
    /\ linked' = k
    /\ act' = A("SetLink", k, "-")
    /\ UNCHANGED <<tree, attached, dver, shape, pver, vs, nev>>

(* settings of a histogram viewer showing the dataset *)
SetViewer(what) ==
    /\ Mut
    /\ attached # "standalone"
    /\ vs' = IF what = "log" THEN [vs EXCEPT !.log = ~@] ELSE [vs EXCEPT !.nbin = IF @ = 4 THEN 6 ELSE 4]
    /\ act' = A("SetViewer", what, "-")
    /\ UNCHANGED <<tree, attached, dver, shape, pver, linked, nev>>

Next ==
    \/ \E t \in Trees, att \in {"attached", "free", "standalone"} : Setup(t, att)
    \/ \E k \in EvalKinds : Evaluate(k)
    \/ UpdateComponents
    \/ \E ns \in BOOLEAN : UpdateFromData(ns)
    \/ \E s \in Slots, how \in Hows : MutateLeaf(s, how)
    \/ \E k \in {"none", "L1", "L2"} : SetLink(k)
    \/ \E w \in {"log", "nbin"} : SetViewer(w)

Spec == Init /\ [][Next]_vars

(* the requirement: evaluation never changes the abstract state *)
Prop_EvaluateIsPure == [][(act'.op = "Evaluate") => UNCHANGED avars]_vars
=============================================================================
