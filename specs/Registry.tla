------------------------------------ MODULE Registry ------------------------------------
(* The label registry (glue.core.registry.Registry) - beyond the twenty listed properties.

   The registry keeps, per group, a label for every registered object and makes labels unique within a
   group: registering an object under a label that another object of the group already holds gives it
   the first free label among  label_01, label_02, ...  Re-registering an object under its own label keeps
   it; under a new label, its old label is released first.  Unregistering releases the label; clear()
   forgets everything.  While disambiguation is disabled (the `disable` decorator used when sessions are
   restored) the requested label is stored as it is.

   Labels are modelled as <<base, n>>: base label and suffix number (0 = no suffix).               *)
EXTENDS Naturals, FiniteSets, TLC

CONSTANTS Obj, Group, Base, MaxSuffix, MaxOps

VARIABLES reg, disabled, nops, last, act
vars == <<reg, disabled, nops, last, act>>

None == <<"-", 0>>
L(b) == <<b, 0>>
Taken(g, o) == {reg[g][x] : x \in {y \in Obj : reg[g][y] # None /\ y # o}}         \* labels of the other objects of the group
FirstFree(b, taken) == IF L(b) \notin taken THEN L(b)
                       ELSE <<b, CHOOSE n \in 1..MaxSuffix : <<b, n>> \notin taken /\ \A m \in 1..(n - 1) : <<b, m>> \in taken>>
A(op, o, g, b) == [op |-> op, o |-> o, g |-> g, b |-> b]
Step == nops < MaxOps /\ nops' = nops + 1

Init == reg = [g \in Group |-> [o \in Obj |-> None]] /\ disabled = FALSE /\ nops = 0 /\ last = None /\ act = A("Init", "-", "-", "-")

Register(o, g, b) ==
    /\ Step
    /\ Cardinality(Taken(g, o)) < MaxSuffix                      \* a free suffix exists within the bound
    /\ LET lab == IF disabled \/ reg[g][o] = L(b) THEN L(b)          \* an object keeps its own label when it asks for it again
                  ELSE FirstFree(b, Taken(g, o)) IN
         /\ reg' = [reg EXCEPT ![g][o] = lab]
         /\ last' = lab
    /\ act' = A("Register", o, g, b) /\ UNCHANGED disabled
Unregister(o, g) ==
    /\ Step /\ reg' = [reg EXCEPT ![g][o] = None] /\ last' = None
    /\ act' = A("Unregister", o, g, "-") /\ UNCHANGED disabled
Clear == /\ Step /\ reg' = [g \in Group |-> [o \in Obj |-> None]] /\ last' = None
         /\ act' = A("Clear", "-", "-", "-") /\ UNCHANGED disabled
SetDisabled(v) == /\ Step /\ disabled # v /\ disabled' = v /\ last' = None
                  /\ act' = A("SetDisabled", "-", "-", IF v THEN "on" ELSE "off") /\ UNCHANGED reg

Next == \/ \E o \in Obj, g \in Group, b \in Base : Register(o, g, b)
        \/ \E o \in Obj, g \in Group : Unregister(o, g)
        \/ Clear
        \/ \E v \in BOOLEAN : SetDisabled(v)
Spec == Init /\ [][Next]_vars

(* a label handed out while disambiguation is on is free in its group, unless the object asked for the label it holds *)
Prop_RegisterGivesFreeLabel ==
    [][(act'.op = "Register" /\ ~disabled /\ reg[act'.g][act'.o] # L(act'.b)) => last' \notin Taken(act'.g, act'.o)]_vars
Prop_OwnLabelKept ==
    [][(act'.op = "Register" /\ ~disabled /\ reg[act'.g][act'.o] = L(act'.b)) => last' = L(act'.b)]_vars
=============================================================================
