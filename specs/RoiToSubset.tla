--------------------------------- MODULE RoiToSubset ---------------------------------
(* A drawn region becomes a selection of exactly the points it contains (property C09).

   Extends Geometry.tla.  A configuration is a 2-d region, the kind of each axis (numeric or
   categorical) and the number of categories of each categorical axis.  The data elements
   are ALL combinations of plotted positions: the half-unit lattice on a numeric axis, the
   integer positions 0..n-1 (category index in plotting order) on a categorical axis.
   One requirement covers the seven conversion paths of the code:
       an element is selected  <=>  the region contains its plotted position
   (nothing is required exactly on the region's boundary).  TLC computes the selected set
   with the exact containment predicates of Geometry.tla; region edges are placed on a
   quarter-unit grid so that they sweep across every gap between category positions.     *)
EXTENDS Geometry

CONSTANTS R2Regions, NumPos, MaxCat, CatSets

Unit == 20
AxisPos(kind, n) == IF kind = "cat" THEN {c * Unit : c \in 0..(n - 1)} ELSE NumPos
Elems(xk, yk, nx, ny) == {<<x, y>> : x \in AxisPos(xk, nx), y \in AxisPos(yk, ny)}

Pick2 ==
    /\ ~picked
    /\ picked' = TRUE
    /\ \E r \in R2Regions, xk \in {"num", "cat"}, yk \in {"num", "cat"}, nx \in 1..MaxCat, ny \in 1..MaxCat :
         /\ (xk = "num" => nx = 1)
         /\ (yk = "num" => ny = 1)
         /\ roi' = [r EXCEPT !.poly = r.poly] @@ [xk |-> xk, yk |-> yk, nx |-> nx, ny |-> ny, cats |-> {}]
         /\ inside' = {p \in Elems(xk, yk, nx, ny) : In(r, p)}
         /\ band' = {p \in Elems(xk, yk, nx, ny) : On(r, p)}
    /\ acts' = <<>>
    /\ act' = [op |-> "pick"]

(* a categorical region along x: a set of category codes *)
PickCatSet ==
    /\ ~picked
    /\ picked' = TRUE
    /\ \E S \in CatSets, nx \in 1..MaxCat, yk \in {"num", "cat"}, ny \in 1..MaxCat :
         /\ (yk = "num" => ny = 1)
         /\ S \subseteq 0..(nx - 1)
         /\ roi' = [k |-> "catset", xk |-> "cat", yk |-> yk, nx |-> nx, ny |-> ny, cats |-> S]
         /\ inside' = {p \in Elems("cat", yk, nx, ny) : (p[1] \div Unit) \in S}
         /\ band' = {}
    /\ acts' = <<>>
    /\ act' = [op |-> "pick"]

Next2 == Pick2 \/ PickCatSet
Spec2 == Init /\ [][Next2]_vars
=============================================================================
