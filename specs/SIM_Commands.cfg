\* E1 random words: 3 datasets, <=6 groups, 2 leaves, all modes, MaxUndo 3.
CONSTANTS
  Data = {"d1", "d2", "d3"}
  Fresh <- c_Fresh0
  MaxGroups = 6
  Row = {0, 1, 2}
  Sel <- c_Leaf
  Label = {"A"}
  Color = {"c1"}
  MaxDelay = 0
  Leaf <- c_Leaf
  Mode <- c_ModeAll
  CmdKinds <- c_AllKinds
  Setup = TRUE
  MaxUndo = 3
INIT SInit
NEXT SNext
