\* E1 random deep walks (tlc -simulate). 3 listeners, 4 classes, filters, two levels of handler re-entrancy.
CONSTANTS
  Listener = {"L1", "L2", "L3"}
  Class <- c_Class
  Parent <- c_Parent
  Prio = {1, 2, 3, 4}
  Filter = {"all", "tag", "none"}
  MaxMsg = 6
  MaxFrames = 9
  MaxBlocks = 3
  MaxSetup = 4
  MaxLate = 3
  MaxNested = 6
  DistinctPrio = TRUE
INIT Init
NEXT Next
