\* E1 random walks: full menu, up to 6 joins at once (chains, stars, cycles over 4 datasets).
CONSTANTS
  Dataset <- c_Dataset
  Table <- c_Table
  JoinMenu <- c_Menu
  Selections <- c_Sel
  MaxJoins = 6
INIT Init
NEXT Next
