\* E1 random walks over the full menu of 8 links.
CONSTANTS
  Dataset <- c_Dataset
  Comp <- c_Comp
  Owner <- c_Owner
  DependsOn <- c_DependsOn
  Initial <- c_Initial
  InitialColl <- c_None
  LinkMenu <- c_Menu
  MaxDelay = 2
  MaxLinks = 8
INIT Init
NEXT Next
