\* random walks (tlc -simulate): up to 4 evaluations and 4 mutations per walk
CONSTANTS
  Trees <- c_Trees
  Slots = {"A", "B"}
  SlotsOf <- c_SlotsOf
  EvalKinds <- c_Evals
  Hows = {"move", "edit", "set"}
  MaxEval = 4
  MaxMut = 4
  MaxVer = 3
INIT Init
NEXT Next
