\* random deep histories (pool up to 9 trees)
CONSTANTS
  Leaf = {"s1", "s2", "s3"}
  LeafSeq <- c_LeafSeq
  MaxPool = 9
  Modes <- c_Modes
  NViews = 3
  EditLeaves = {"s1", "s2", "s3"}
INIT Init
NEXT Next
