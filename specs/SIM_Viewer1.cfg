CONSTANTS
  Data = {"d1", "d2", "d3"}
  MaxGroups = 3
  MaxDelay = 1
  MaxLayerOps = 3
  AttrMenu <- c_AttrMenu
  Filters <- c_Filters
INIT Init
NEXT Next1
