------------------------------------ MODULE Session ------------------------------------
(* A saved session restores to an observationally equivalent session (property C02).

   The abstract session: two datasets of fixed shapes, the SET of registered link helpers
   (by kind), the kind of key join registered ("none", one-to-one "j11", one key against
   several "j1N", several against several "jNN"), and the ordered list of subset groups, each
   holding a selection tree over elementary selection KINDS (the kinds - every SubsetState
   and Roi class found in the tree under test that the harness has a factory for - are
   given as constants generated at run time).  Building actions change the abstract state;
       SaveLoad     serialise the session and continue with the restored one: required to be
                    the IDENTITY on everything observable (or to fail loudly at save time)
   TLC enumerates the compositions - every kind alone, nested under each combinator, pairs
   in the thorough tier, links and joins, edits after a restore and a second save - and
   checks that SaveLoad leaves the abstract state unchanged; the harness compares the
   observable projection of the real session before and after every SaveLoad.            *)
EXTENDS Naturals, Sequences, FiniteSets, TLC

CONSTANTS SelKinds, LinkKinds, JoinKinds, Shapes, MaxGroups, Nest, Pairs, MaxSaves

VARIABLES shape, groups, links, joined, nsaves, act
avars == <<shape, groups, links, joined>>
vars == <<avars, nsaves, act>>

Tree(op, a, b) == [op |-> op, a |-> a, b |-> b]
Leaves == {Tree("leaf", k, "-") : k \in SelKinds}
Nested == IF Nest THEN {Tree(op, k, "-") : op \in {"not"}, k \in SelKinds} \cup
                        {Tree(op, k, k) : op \in {"and", "mor"}, k \in SelKinds} ELSE {}
PairTrees == IF Pairs THEN {Tree(op, a, b) : op \in {"or", "xor"}, a \in SelKinds, b \in SelKinds} ELSE {}
Trees == Leaves \cup Nested \cup PairTrees

A(op, t, s) == [op |-> op, t |-> t, s |-> s]
NoTree == Tree("-", "-", "-")

Init ==
    /\ shape \in Shapes
    /\ groups = <<>>
    /\ links = {}
    /\ joined = "none"
    /\ nsaves = 0
    /\ act = A("Init", NoTree, "-")

NewGroup(t) ==
    /\ Len(groups) < MaxGroups
    /\ groups' = Append(groups, t)
    /\ act' = A("NewGroup", t, "-")
    /\ UNCHANGED <<shape, links, joined, nsaves>>

AddLink(k) ==
    /\ links = {}            \* one helper per session: the concrete helpers all define the same target attributes
    /\ links' = links \cup {k}
    /\ act' = A("AddLink", NoTree, k)
    /\ UNCHANGED <<shape, groups, joined, nsaves>>

AddJoin(k) ==
    /\ joined = "none"
    /\ joined' = k
    /\ act' = A("AddJoin", NoTree, k)
    /\ UNCHANGED <<shape, groups, links, nsaves>>

SaveLoad ==
    /\ nsaves < MaxSaves
    /\ nsaves' = nsaves + 1
    /\ act' = A("SaveLoad", NoTree, "-")
    /\ UNCHANGED avars

Next ==
    \/ \E t \in Trees : NewGroup(t)
    \/ \E k \in LinkKinds : AddLink(k)
    \/ \E k \in JoinKinds : AddJoin(k)
    \/ SaveLoad

Spec == Init /\ [][Next]_vars

Prop_SaveLoadIsIdentity == [][(act'.op = "SaveLoad") => UNCHANGED avars]_vars
=============================================================================
