------------------------------------ MODULE Stats ------------------------------------
(* Requirement specification of statistics and histograms (property C10).

   "stat" configurations: an array shape, a view (positive-step slices, possibly shorter
   than the dimensionality), reduction axes, a selection and the finite/positive filters.
   The array holds a fixed table of small integers with NaN, +inf and -inf markers.  TLC
   computes the index bookkeeping - the part that chunking, minimal sub-arrays, padding and
   view recombination in the code can get wrong:
       exp.oshape       the documented shape of the result
       exp.kept[c]      for every output cell c (C order) the SET of flat source positions
                        whose values reduce into it, after view, selection and filters
   The statistic itself (min, max, sum, mean, median, percentile; NaN for an empty cell) is
   then computed by the harness from the values at those positions with exact rational
   arithmetic, for every statistic and for every internal chunk limit: the required result
   does not depend on the chunk limit.

   "hist" configurations: values, a selection, a range (possibly reversed, possibly ending
   on data values), a number of bins, linear or log space.  TLC computes the bin of every
   kept value with integer arithmetic; values exactly on an interior edge may go to either
   side as long as ALL such ties go to the same side (exp.bins_upper / exp.bins_lower).   *)
EXTENDS Integers, Sequences, FiniteSets, TLC

CONSTANTS
    Shapes,      \* set of shapes (sequences)
    Vals,        \* Vals[p + 1] value at flat position p; NaN = 1000, +inf = 1001, -inf = 1002
    ViewsOf,     \* ViewsOf[shape] : set of views, a view = sequence of [b, e, s] (length <= ndim)
    SelsOf,      \* SelsOf[shape]  : set of selections [k |-> "none"|"set"|"box", s |-> set of positions, box |-> seq of <<lo, hi>>]
    HistCfgs     \* set of histogram configurations

VARIABLES cfg, exp, picked
vars == <<cfg, exp, picked>>

NaN == 1000
IsFinite(v) == v < 1000

RECURSIVE Stride(_, _)
Stride(shape, k) == IF k = Len(shape) THEN 1 ELSE shape[k + 1] * Stride(shape, k + 1)
Size(shape) == shape[1] * Stride(shape, 1)
Idx(shape, f, k) == (f \div Stride(shape, k)) % shape[k]

SliceIdx(it) == IF it.e > it.b THEN [k \in 1..((it.e - it.b + it.s - 1) \div it.s) |-> it.b + (k - 1) * it.s] ELSE <<>>
Full(n) == [b |-> 0, e |-> n, s |-> 1]
Padded(shape, view) == [k \in 1..Len(shape) |-> IF k <= Len(view) THEN view[k] ELSE Full(shape[k])]

(* the viewed array: its shape, and the source position of each of its multi-indices *)
VShape(shape, view) == [k \in 1..Len(shape) |-> Len(SliceIdx(Padded(shape, view)[k]))]
SrcOf(shape, view, m) ==   \* m : multi-index into the viewed array (0-based per axis)
    LET its == Padded(shape, view)
        F[k \in 0..Len(shape)] == IF k = 0 THEN 0 ELSE F[k - 1] + SliceIdx(its[k])[m[k] + 1] * Stride(shape, k)
    IN F[Len(shape)]

MultiIdx(vshape) == {m \in [1..Len(vshape) -> 0..8] : \A k \in 1..Len(vshape) : m[k] < vshape[k]}

InSel(shape, sel, p) ==
    CASE sel.k = "none" -> TRUE
      [] sel.k = "set"  -> p \in sel.s
      [] sel.k = "box"  -> \A k \in 1..Len(shape) : sel.box[k][1] <= Idx(shape, p, k) /\ Idx(shape, p, k) < sel.box[k][2]

Passes(v, positive) == IsFinite(v) /\ (positive => v > 0)

(* axes: set of reduced axes (1-based) of the VIEWED array, or {} meaning "axis=None": reduce everything *)
KeptAxes(vshape, axes) == IF axes = {} THEN <<>> ELSE SelectSeq([k \in 1..Len(vshape) |-> k], LAMBDA k : k \notin axes)
OShape(vshape, axes) == LET ka == KeptAxes(vshape, axes) IN [j \in 1..Len(ka) |-> vshape[ka[j]]]

RECURSIVE CellsSeq(_)
CellsSeq(oshape) ==     \* all multi-indices of oshape in C order
    IF oshape = <<>> THEN <<<<>>>>
    ELSE LET rest == CellsSeq(Tail(oshape)) IN
         LET F[i \in 0..Head(oshape)] == IF i = 0 THEN <<>> ELSE F[i - 1] \o [j \in 1..Len(rest) |-> <<i - 1>> \o rest[j]] IN F[Head(oshape)]

StatExp(shape, view, axes, sel, positive) ==
    LET vs == VShape(shape, view)
        ka == KeptAxes(vs, axes)
        os == OShape(vs, axes)
        cells == CellsSeq(os) IN
    [oshape |-> os,
     kept |-> [c \in 1..Len(cells) |->
                 {SrcOf(shape, view, m) : m \in {x \in MultiIdx(vs) :
                     /\ \A j \in 1..Len(ka) : x[ka[j]] = cells[c][j]
                     /\ InSel(shape, sel, SrcOf(shape, view, x))
                     /\ Passes(Vals[SrcOf(shape, view, x) + 1], positive)}}]]

AxesChoices(n) == {{}} \cup (SUBSET (1..n) \ {{}})

(* histogram: h = [vals (seq of ints or NaN), sel (set of indices 1..), lo, hi, n, log]
   log space: values and range ends are exponents of the base (the harness stores base^x) *)
Lo(h) == IF h.lo <= h.hi THEN h.lo ELSE h.hi
Hi(h) == IF h.lo <= h.hi THEN h.hi ELSE h.lo
InRange(h, v) == IsFinite(v) /\ Lo(h) <= v /\ v <= Hi(h)
(* bin index (0-based) with ties to the upper / lower bin; x = hi always in the last bin *)
BinUpper(h, v) == IF v = Hi(h) THEN h.n - 1 ELSE ((v - Lo(h)) * h.n) \div (Hi(h) - Lo(h))
OnEdge(h, v) == v # Lo(h) /\ v # Hi(h) /\ ((v - Lo(h)) * h.n) % (Hi(h) - Lo(h)) = 0
BinLower(h, v) == IF OnEdge(h, v) THEN BinUpper(h, v) - 1 ELSE BinUpper(h, v)
HistExp(h) ==
    LET keptIdx == {i \in h.sel : InRange(h, h.vals[i])} IN
    [total |-> Cardinality(keptIdx),
     degenerate |-> Lo(h) = Hi(h),
     upper |-> [b \in 1..h.n |-> {i \in keptIdx : BinUpper(h, h.vals[i]) = b - 1}],
     lower |-> [b \in 1..h.n |-> {i \in keptIdx : BinLower(h, h.vals[i]) = b - 1}]]

Init == cfg = [kind |-> "init"] /\ exp = [kind |-> "init"] /\ picked = FALSE

PickStat ==
    \E shape \in Shapes : \E view \in ViewsOf[shape], sel \in SelsOf[shape], positive \in BOOLEAN :
        \E axes \in AxesChoices(Len(shape)) :
            /\ cfg' = [kind |-> "stat", shape |-> shape, view |-> view, axes |-> axes, sel |-> sel, positive |-> positive]
            /\ exp' = [kind |-> "stat"] @@ StatExp(shape, view, axes, sel, positive)

PickHist ==
    \E h \in HistCfgs :
        /\ Lo(h) # Hi(h)
        /\ cfg' = [kind |-> "hist", h |-> h]
        /\ exp' = [kind |-> "hist"] @@ HistExp(h)

Pick == ~picked /\ picked' = TRUE /\ (PickStat \/ PickHist)
Next == Pick
Spec == Init /\ [][Next]_vars

(* sanity *)
Inv_KeptDisjoint == (picked /\ cfg.kind = "stat") =>
    \A a, b \in DOMAIN exp.kept : a # b => exp.kept[a] \cap exp.kept[b] = {}
Inv_HistTotals == (picked /\ cfg.kind = "hist") =>
    LET S(q) == LET F[k \in 0..Len(q)] == IF k = 0 THEN 0 ELSE F[k - 1] + Cardinality(q[k]) IN F[Len(q)] IN
    S(exp.upper) = exp.total /\ S(exp.lower) = exp.total
=============================================================================
