--------------------------------- MODULE SubsetAlgebra ---------------------------------
(* Requirement specification of the Boolean algebra of selections (property C01).

   A selection is a tree over elementary selections (leaves) built with and / or / xor /
   not, a many-way or, copies, and the edit modes applied to the edit subset.  Trees are
   written in prefix notation as sequences of strings (<<"and", "s1", "not", "s2">>;
   "mor2"/"mor3" are the many-way or with 2/3 operands).  The meaning of a tree is its
   truth table TT(t): the set of leaf-membership patterns (subsets of Leaf) for which it
   holds - the canonical Boolean semantics, computed here by TLC.

   State: the pool of trees built so far, the tree held by the edit subset, and for each
   of them its truth table (exported).  The harness evaluates every leaf ALONE on fresh
   state objects, and after every action requires of EVERY tree of the pool and of the
   edit subset:  mask[e] = ( {l : e in mask(l)} in TT(tree) ), with the dataset's shape,
   evaluated repeatedly and in different orders - so an operand altered by combining,
   copying or evaluating shows up as a changed mask of an earlier tree.                 *)
EXTENDS Naturals, Sequences, FiniteSets, TLC

CONSTANTS Leaf, LeafSeq, MaxPool, Modes, NViews, EditLeaves

VARIABLES pool, edit, tts, ett, act
vars == <<pool, edit, tts, ett, act>>

BinOps == {"and", "or", "xor"}

(* does tree t (prefix form) hold for the leaf pattern P ? returns <<bool, rest>> *)
RECURSIVE Ev(_, _)
Ev(t, P) ==
    LET h == Head(t) IN
    IF h \in Leaf THEN <<h \in P, Tail(t)>>
    ELSE IF h = "empty" THEN <<FALSE, Tail(t)>>
    ELSE IF h = "not" THEN LET a == Ev(Tail(t), P) IN <<~a[1], a[2]>>
    ELSE IF h \in BinOps THEN
        LET a == Ev(Tail(t), P)
            b == Ev(a[2], P) IN
        <<CASE h = "and" -> a[1] /\ b[1] [] h = "or" -> a[1] \/ b[1] [] h = "xor" -> a[1] # b[1], b[2]>>
    ELSE IF h = "mor2" THEN
        LET a == Ev(Tail(t), P)
            b == Ev(a[2], P) IN <<a[1] \/ b[1], b[2]>>
    ELSE \* "mor3"
        LET a == Ev(Tail(t), P)
            b == Ev(a[2], P)
            c == Ev(b[2], P) IN <<a[1] \/ b[1] \/ c[1], c[2]>>

TT(t) == {P \in SUBSET Leaf : Ev(t, P)[1]}

A(op, i, j, k, m, l) == [op |-> op, i |-> i, j |-> j, k |-> k, m |-> m, l |-> l]

Init ==
    /\ pool = [i \in 1..Len(LeafSeq) |-> <<LeafSeq[i]>>]
    /\ edit = <<>>
    /\ tts = [i \in 1..Len(LeafSeq) |-> TT(<<LeafSeq[i]>>)]
    /\ ett = {}
    /\ act = A("Init", 0, 0, 0, "-", "-")

Push(t) == pool' = Append(pool, t) /\ tts' = Append(tts, TT(t))

Combine(op, i, j) ==
    /\ Len(pool) < MaxPool
    /\ Push(<<op>> \o pool[i] \o pool[j])
    /\ act' = A("Combine", i, j, 0, op, "-")
    /\ UNCHANGED <<edit, ett>>

Invert(i) ==
    /\ Len(pool) < MaxPool
    /\ Push(<<"not">> \o pool[i])
    /\ act' = A("Invert", i, 0, 0, "-", "-")
    /\ UNCHANGED <<edit, ett>>

ManyOr2(i, j) ==
    /\ Len(pool) < MaxPool
    /\ Push(<<"mor2">> \o pool[i] \o pool[j])
    /\ act' = A("ManyOr", i, j, 0, "-", "-")
    /\ UNCHANGED <<edit, ett>>

ManyOr3(i, j, k) ==
    /\ Len(pool) < MaxPool
    /\ Push(<<"mor3">> \o pool[i] \o pool[j] \o pool[k])
    /\ act' = A("ManyOr", i, j, k, "-", "-")
    /\ UNCHANGED <<edit, ett>>

Copy(i) ==
    /\ Len(pool) < MaxPool
    /\ Push(pool[i])
    /\ act' = A("Copy", i, 0, 0, "-", "-")
    /\ UNCHANGED <<edit, ett>>

(* evaluating changes nothing *)
Evaluate(i, v) ==
    /\ act' = A("Evaluate", i, 0, v, "-", "-")
    /\ UNCHANGED <<pool, edit, tts, ett>>

(* the edit modes: what the edit subset holds afterwards *)
EditResult(m, new, old) ==
    CASE m = "Replace" -> new
      [] m = "And"     -> <<"and">> \o new \o old
      [] m = "Or"      -> <<"or">> \o new \o old
      [] m = "Xor"     -> <<"xor">> \o new \o old
      [] m = "AndNot"  -> <<"and">> \o old \o <<"not">> \o new

EditMode(m, l) ==
    /\ Len(edit) < 12
    /\ edit' = IF edit = <<>> THEN <<l>> ELSE EditResult(m, <<l>>, edit)
    /\ ett' = TT(edit')
    /\ act' = A("EditMode", 0, 0, 0, m, l)
    /\ UNCHANGED <<pool, tts>>

Next ==
    \/ \E op \in BinOps, i \in DOMAIN pool, j \in DOMAIN pool : Combine(op, i, j)
    \/ \E i \in DOMAIN pool : Invert(i) \/ Copy(i)
    \/ \E i \in DOMAIN pool, j \in DOMAIN pool : ManyOr2(i, j)
    \/ \E i \in DOMAIN pool, j \in DOMAIN pool, k \in DOMAIN pool : (i <= 3 /\ j <= 3) /\ ManyOr3(i, j, k)
    \/ \E i \in DOMAIN pool, v \in 1..NViews : Evaluate(i, v)
    \/ \E m \in Modes, l \in EditLeaves : EditMode(m, l)

Spec == Init /\ [][Next]_vars

(* the truth-table semantics is a Boolean homomorphism, and no action changes the meaning of an existing tree *)
Inv_Homomorphism ==
    \A i \in DOMAIN pool :
        LET t == pool[i] IN
        /\ Head(t) = "not" => tts[i] = (SUBSET Leaf) \ TT(Tail(t))
        /\ tts[i] = TT(t)
Prop_OperandsKeepMeaning == [][\A i \in DOMAIN pool : i \in DOMAIN pool' /\ pool'[i] = pool[i] /\ tts'[i] = tts[i]]_vars
=============================================================================
