INIT Init
NEXT Next
INVARIANT AllValid
POSTCONDITION TraceAccepted
CHECK_DEADLOCK FALSE
