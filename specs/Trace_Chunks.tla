--------------------------------- MODULE Trace_Chunks ---------------------------------
(* Code -> spec: validates recorded outputs of glue.utils.array.iterate_chunks.
   The trace file (JSON array) holds records [shape, limit, chunks]; TLC steps through them
   and evaluates ArrayHelpers!ValidChunks on each; `bad` collects the indices that fail.  *)
EXTENDS Naturals, Sequences, FiniteSets, TLC, Json, IOUtils

VARIABLES i, bad
Trace == JsonDeserialize(IOEnv.TRACE_FILE)

AH == INSTANCE ArrayHelpers WITH MaxLen <- 1, MaxStep <- 1, MaxDim <- 3, MaxDimLen <- 8, Alphabet <- {}, MaxCat <- 1,
                                 cfg <- 0, exp <- 0, picked <- FALSE

Init == i = 0 /\ bad = {}
Next ==
    /\ i < Len(Trace)
    /\ i' = i + 1
    /\ LET r == Trace[i + 1] IN
         bad' = IF AH!ValidChunks(r.shape, r.limit, r.chunks) THEN bad ELSE bad \cup {i + 1}
Spec == Init /\ [][Next]_<<i, bad>>

AllValid == bad = {}
Consumed == (i = Len(Trace)) => TLCSet(1, i)
TraceAccepted == TLCGet("stats").diameter - 1 = Len(Trace)
=============================================================================
