SPECIFICATION TSpec
CONSTANTS
  Data <- g_CData
  Fresh <- c_NoFresh
  MaxGroups = 1
  Row = {}
  Sel <- c_Sel
  Label = {}
  Color = {}
  MaxDelay = 0
CONSTRAINT Track
POSTCONDITION Accepted
CHECK_DEADLOCK FALSE
