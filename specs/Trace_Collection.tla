------------------------------- MODULE Trace_Collection -------------------------------
(* Code -> spec for C06: executions of real DataCollections, recorded by harness/glue_tracer.py while the repository's
   own tests run, validated against Collection.tla.

   One trace per DataCollection object.  Every event is one call of append / remove / new_subset_group /
   remove_subset_group (calls made by merge, extend, clear and the commands are traced as these primitives) and carries
   the state projected from the real objects AFTER the call:
       coll      names of the datasets, in order        groups   numbers of the live groups, in order
       subs[i]   for dataset coll[i]: the group number of every grouped subset it carries
       members[i] for group groups[i]: the dataset of every subset the group lists
       strays    <<dataset, group>> for datasets that left the collection but still carry a subset of a live group
       delay     open hub delay blocks                  ngrp     groups numbered so far
   The trace action binds the logged call to the Collection.tla effect of the same name, requires the logged
   collection and group lists to be the ones the effect produces, and - when no delay block is open - requires the
   logged membership to be exactly what C06 states (ExpSubsets / ExpMembers, each once; no strays).
   Two events have no counterpart in Collection.tla and are named deviations:
       Adopt     the collection was changed without any traced call (session loaders assign the private lists,
                 tests poke them): the spec state is re-initialised from the log; membership is still required
       Observe   a session restore finished: no change, membership required.                              *)
EXTENDS Collection, Trace_Collection_Gen

VARIABLES tix, eix
tvars == <<vars, tix, eix>>
Traces == g_CTraces

Live == tix <= Len(Traces)
Ev == Traces[tix][eix]
Is(e) == Live /\ eix <= Len(Traces[tix]) /\ Ev.ev = e
Adv == eix' = eix + 1 /\ tix' = tix

BagIs(seq, S) == Len(seq) = Cardinality(S) /\ Range(seq) = S
MembershipOK(e) ==
    e.delay = 0 =>
        /\ \A i \in DOMAIN e.coll : BagIs(e.subs[i], Range(e.groups))
        /\ \A i \in DOMAIN e.groups : BagIs(e.members[i], Range(e.coll))
        /\ e.strays = <<>>
Agrees(e) == coll' = e.coll /\ groups' = e.groups /\ MembershipOK(e)
Keep == UNCHANGED <<gstate, glabel, gcolor, nmerge, delay>> /\ act' = act

T_Append ==
    /\ Is("Append")
    /\ IF Ev.d \in Range(coll) THEN coll' = coll ELSE coll' = Append(coll, Ev.d)     \* appending a member is a no-op
    /\ UNCHANGED <<groups, ngrp>> /\ Keep /\ Agrees(Ev) /\ Adv
T_Remove ==
    /\ Is("Remove")
    /\ coll' = RemoveSeq(coll, Ev.d)                                                    \* removing a non-member is a no-op
    /\ UNCHANGED <<groups, ngrp>> /\ Keep /\ Agrees(Ev) /\ Adv
T_NewGroup ==
    /\ Is("NewGroup")
    /\ Ev.g = ngrp + 1                                                                   \* a new group, never a re-used one
    /\ ngrp' = ngrp + 1
    /\ groups' = Append(groups, Ev.g)
    /\ UNCHANGED coll /\ Keep /\ Agrees(Ev) /\ Adv
T_RemoveGroup ==
    /\ Is("RemoveGroup")
    /\ groups' = RemoveSeq(groups, Ev.g)
    /\ UNCHANGED <<coll, ngrp>> /\ Keep /\ Agrees(Ev) /\ Adv
T_Adopt ==
    /\ Is("Adopt")
    /\ coll' = Ev.coll /\ groups' = Ev.groups /\ ngrp' = Ev.ngrp
    /\ Keep /\ MembershipOK(Ev) /\ Adv
T_Observe ==
    /\ Is("Observe")
    /\ UNCHANGED <<coll, groups, ngrp>> /\ Keep /\ Agrees(Ev) /\ Adv

NextTrace ==
    /\ Live
    /\ eix > Len(Traces[tix])
    /\ tix' = tix + 1 /\ eix' = 1
    /\ coll' = <<>> /\ groups' = <<>> /\ ngrp' = 0
    /\ Keep
    /\ (IF tix > TLCGet(42) THEN TLCSet(42, tix) ELSE TRUE)

TInit == Init /\ tix = 1 /\ eix = 1 /\ TLCSet(42, 0) /\ TLCSet(43, 0)
TNext == T_Append \/ T_Remove \/ T_NewGroup \/ T_RemoveGroup \/ T_Adopt \/ T_Observe \/ NextTrace
TSpec == TInit /\ [][TNext]_tvars

Track == IF tix * 100000 + eix > TLCGet(43) THEN TLCSet(43, tix * 100000 + eix) ELSE TRUE
Accepted == PrintT(<<"FURTHEST", TLCGet(42), TLCGet(43)>>) /\ TLCGet(42) = Len(Traces)
=============================================================================
