SPECIFICATION TSpec
CONSTANTS
  Listener <- g_Listener
  Class <- g_Class
  Parent <- g_Parent
  Prio <- g_Prio
  Filter = {"logged"}
  MaxMsg <- g_MaxMsg
  MaxFrames = 1000000
  MaxBlocks = 1000000
  MaxSetup = 1000000
  MaxLate = 1000000
  MaxNested = 1000000
  DistinctPrio = FALSE
CONSTRAINT Track
POSTCONDITION Accepted
CHECK_DEADLOCK FALSE
