----------------------------------- MODULE Trace_Hub -----------------------------------
(* Code -> spec: validates executions of the real glue Hub, recorded by harness/glue_tracer.py
   (from the repository's own tests and from random drivers), against Hub.tla.

   The trace file holds a sequence of traces (one per Hub instance); a trace is a sequence of
   events.  Every event is matched by the Hub.tla action of the same name with the logged
   arguments bound; the hub's internal control steps that are not observable (DelivDone,
   FlushDone) are silent steps.  What is NOT logged - and therefore decided by the spec and
   checked against the following events - is: who receives a message (most specific
   subscription per listener, in priority order), that nothing is delivered while a delay
   block is open, that the queue is flushed exactly once, in order, when the outermost block
   closes, that ignored types are dropped, and that a handler's nested broadcasts are settled
   before it returns.  Filters are arbitrary Python: the outcome of every filter evaluation
   is logged and bound (m.acc); the spec checks that the filter consulted for a listener is
   the one of its most specific matching subscription.

   Events:  Subscribe(l, c, p)  Unsubscribe(l, c)  UnsubscribeAll(l)
            Broadcast(m, c, fate in {"dropped", "queued", "deliver"} [, evals])
            FlushItem(m, fate [, evals])      one per queued message when a delay block releases
            Deliver(l, c, m)   Return(l, m)   DelayEnter  DelayExit(exc)  IgnoreEnter(c)  IgnoreExit(c)
   evals = the filter evaluations made for this message: sequence of [l, c, r].           *)
EXTENDS Hub, Trace_Hub_Gen

Traces == g_Traces  \* sequence of traces; generated as a TLA+ literal (Trace_Hub_Gen.tla): a definition that reads the
                    \* JSON file (JsonDeserialize(IOEnv.TRACE_FILE)) was re-evaluated in every state (14 ms/state at 2 MB)

VARIABLES tix, eix      \* current trace, next event
tvars == <<vars, tix, eix>>

Live == tix <= Len(Traces)
Ev == Traces[tix][eix]
Is(e) == Live /\ eix <= Len(Traces[tix]) /\ Ev.ev = e
Adv == eix' = eix + 1 /\ tix' = tix

Evald(e) == {<<e.evals[k].l, e.evals[k].c>> : k \in DOMAIN e.evals}
Acc(e) == {<<e.evals[k].l, e.evals[k].c>> : k \in {j \in DOMAIN e.evals : e.evals[j].r}}
Msg(e) == [id |-> e.m, c |-> e.c, tag |-> 0, acc |-> IF e.fate = "deliver" THEN Acc(e) ELSE {}]
(* the filters that were evaluated are exactly those of the most specific matching subscription of each listener *)
ConsultedRight(e, m) == e.fate = "deliver" => Evald(e) = {<<s.l, s.c>> : s \in Candidates(m)}

T_Subscribe ==
    /\ Is("Subscribe")
    /\ AtCall
    /\ SubscribeEff(Ev.l, Ev.c, Ev.p, "logged")
    /\ act' = Act("Subscribe", Ev.l, Ev.c, Ev.p, "logged", 0, FALSE, 0)
    /\ UNCHANGED <<blocks, queue, next, log, frames, due, fate, origin, phase, nlate>>
    /\ Adv

T_Unsubscribe ==
    /\ Is("Unsubscribe")
    /\ AtCall
    /\ UnsubscribeEff(Ev.l, Ev.c)
    /\ act' = Act("Unsubscribe", Ev.l, Ev.c, 0, "-", 0, FALSE, 0)
    /\ UNCHANGED <<blocks, queue, next, log, frames, due, fate, origin, phase, nlate>>
    /\ Adv

T_UnsubscribeAll ==
    /\ Is("UnsubscribeAll")
    /\ AtCall
    /\ UnsubscribeAllEff(Ev.l)
    /\ act' = Act("UnsubscribeAll", Ev.l, "-", 0, "-", 0, FALSE, 0)
    /\ UNCHANGED <<blocks, queue, next, log, frames, due, fate, origin, phase, nlate>>
    /\ Adv

T_Broadcast ==
    /\ Is("Broadcast")
    /\ Ev.m = next
    /\ ConsultedRight(Ev, Msg(Ev))
    /\ BroadcastM(Msg(Ev))
    /\ fate'[Ev.m] = (IF Ev.fate = "deliver" THEN "delivering" ELSE Ev.fate)        \* the code's own decision agrees
    /\ Adv

T_FlushItem ==
    /\ Is("FlushItem")
    /\ frames # <<>> /\ Top.k = "flush" /\ Top.q # <<>> /\ Head(Top.q).id = Ev.m    \* released in order
    /\ ConsultedRight(Ev, [Head(Top.q) EXCEPT !.acc = IF Ev.fate = "deliver" THEN Acc(Ev) ELSE {}])
    /\ FlushNextAcc(IF Ev.fate = "deliver" THEN Acc(Ev) ELSE {})
    /\ fate'[Ev.m] = (IF Ev.fate = "deliver" THEN "delivering" ELSE Ev.fate)
    /\ Adv

T_Deliver ==
    /\ Is("Deliver")
    /\ frames # <<>> /\ Top.k = "deliv" /\ Top.m.id = Ev.m
    /\ \E r \in Top.rest :
         /\ r.l = Ev.l /\ r.c = Ev.c
         /\ r.p = MaxP(Top.rest)
         /\ log' = Append(log, <<r.l, Top.m.id>>)
         /\ frames' = Append([frames EXCEPT ![Len(frames)].rest = @ \ {r}], Frame("handler", Top.m, r.l, {}, Len(blocks), <<>>))
         /\ act' = Act("Deliver", r.l, Top.m.c, r.p, "-", 0, FALSE, Top.m.id)
    /\ UNCHANGED <<subs, blocks, queue, next, due, fate, origin, phase, nlate, nnest>>
    /\ Adv

T_Return ==
    /\ Is("Return")
    /\ frames # <<>> /\ Top.k = "handler" /\ Top.l = Ev.l /\ Top.m.id = Ev.m
    /\ HandlerReturn
    /\ Adv

T_DelayEnter == Is("DelayEnter") /\ DelayEnter /\ Adv
T_DelayExit == Is("DelayExit") /\ DelayExit(Ev.exc) /\ Adv
T_IgnoreEnter == Is("IgnoreEnter") /\ IgnoreEnter(Ev.c) /\ Adv
T_IgnoreExit == Is("IgnoreExit") /\ blocks # <<>> /\ blocks[Len(blocks)].c = Ev.c /\ IgnoreExit /\ Adv

(* silent control steps of the hub *)
Silent == Live /\ (DelivDone \/ FlushDone) /\ UNCHANGED <<tix, eix>>

(* next trace: a fresh hub *)
NextTrace ==
    /\ Live
    /\ eix > Len(Traces[tix])
    /\ tix' = tix + 1
    /\ eix' = 1
    /\ subs' = {} /\ blocks' = <<>> /\ queue' = <<>> /\ next' = 1 /\ log' = <<>> /\ frames' = <<>>
    /\ due' = [k \in 1..MaxMsg |-> {}] /\ fate' = [k \in 1..MaxMsg |-> "none"] /\ origin' = [k \in 1..MaxMsg |-> 0]
    /\ phase' = "setup" /\ nlate' = 0 /\ nnest' = 0 /\ act' = NoAct
    /\ (IF tix > TLCGet(42) THEN TLCSet(42, tix) ELSE TRUE)      \* number of traces fully consumed

TInit == Init /\ tix = 1 /\ eix = 1 /\ TLCSet(42, 0) /\ TLCSet(43, 0)
TNext == T_Subscribe \/ T_Unsubscribe \/ T_UnsubscribeAll \/ T_Broadcast \/ T_FlushItem \/ T_Deliver \/ T_Return
         \/ T_DelayEnter \/ T_DelayExit \/ T_IgnoreEnter \/ T_IgnoreExit \/ Silent \/ NextTrace
TSpec == TInit /\ [][TNext]_tvars

(* acceptance (TLC registers, -workers 1): register 42 = number of traces fully consumed, register 43 = furthest
   position reached, encoded tix * 100000 + eix (maintained by the state constraint Track).  The postcondition holds
   iff every trace was consumed; otherwise the harness reads the furthest position from the FURTHEST line: the event
   at that position of that trace is the first one no spec action could match.  (An earlier version signalled
   success by violating an invariant: TLC then printed the whole behaviour, which was quadratic.)               *)
Track == IF tix * 100000 + eix > TLCGet(43) THEN TLCSet(43, tix * 100000 + eix) ELSE TRUE
Accepted == PrintT(<<"FURTHEST", TLCGet(42), TLCGet(43)>>) /\ TLCGet(42) = Len(Traces)
=============================================================================
