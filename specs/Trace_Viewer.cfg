SPECIFICATION TSpec
CONSTANTS
  Data <- g_VData
  MaxGroups = 1
  MaxDelay = 0
  MaxLayerOps = 0
  AttrMenu <- c_NoAttr
  Filters <- c_NoFilter
CONSTRAINT Track
POSTCONDITION Accepted
CHECK_DEADLOCK FALSE
