--------------------------------- MODULE Trace_Viewer ---------------------------------
(* Code -> spec for C18 (layers): executions of real viewers, recorded by harness/glue_tracer.py while the repository's own
   tests run, validated against part 1 of Viewer.tla.

   One trace per Viewer object: the calls on its collection (append / remove a dataset, new / removed subset group, stand-alone
   subsets created / deleted) from the creation of the viewer on, and the calls on the viewer (add_data, remove_data, add_subset,
   remove_subset / remove_layer).  Every event carries, projected from the real objects AFTER the call: the collection, the live
   groups, the stand-alone subsets, the viewer's layers (layer artists) and its state's layers, the number of open hub delay
   blocks and whether the viewer is registered to the hub.

   A trace action applies the Viewer.tla effect of the logged call to `layers` and - when no delay block is open - requires the
   logged layers to be exactly that set, each layer once, and the state's layer list to be the same list.
   Adopt (named deviation): the viewer was created, restored from a session, or its layers were edited without a traced call
   while the hub was quiet: the spec state is re-initialised from the log.                                                 *)
EXTENDS Viewer, Trace_Viewer_Gen

VARIABLES tix, eix
tvars == <<vars, tix, eix>>
Traces == g_VTraces

Live == tix <= Len(Traces)
Ev == Traces[tix][eix]
Is(e) == Live /\ eix <= Len(Traces[tix]) /\ Ev.ev = e
Adv == eix' = eix + 1 /\ tix' = tix

SeqSet(s) == {s[i] : i \in DOMAIN s}
Keep == UNCHANGED <<ngrp, delay, nlay, v2>> /\ act' = act
Bind == coll' = SeqSet(Ev.coll) /\ groups' = SeqSet(Ev.groups) /\ alone' = SeqSet(Ev.alone)       \* logged, cheap state
Agrees ==
    Ev.delay = 0 =>
        /\ SeqSet(Ev.layers) = layers'
        /\ Len(Ev.layers) = Cardinality(layers')                  \* each layer exactly once
        /\ Ev.slayers = Ev.layers                                 \* viewer.layers and viewer.state.layers agree

T_Adopt        == Is("Adopt") /\ Bind /\ layers' = SeqSet(Ev.layers) /\ Keep /\ Agrees /\ Adv
T_Append       == Is("Append") /\ Bind /\ layers' = layers /\ Keep /\ Agrees /\ Adv
T_Remove       == Is("Remove") /\ Bind /\ RemoveEffL(Ev.d) /\ Keep /\ Agrees /\ Adv
T_NewGroup     == Is("NewGroup") /\ Bind /\ NewGroupEffL(Ev.g) /\ Keep /\ Agrees /\ Adv
T_RemoveGroup  == Is("RemoveGroup") /\ Bind /\ RemoveGroupEffL(Ev.g) /\ Keep /\ Agrees /\ Adv
T_NewAlone     == Is("NewAlone") /\ Bind /\ NewAloneEffL(Ev.d, Ev.x) /\ Keep /\ Agrees /\ Adv
T_DeleteAlone  == Is("DeleteAlone") /\ Bind /\ layers' = layers \ {<<Ev.d, Ev.x>>} /\ Keep /\ Agrees /\ Adv
T_AddData      == Is("ViewerAddData") /\ Bind /\ (IF Ev.ok THEN AddDataEffL(Ev.d) ELSE layers' = layers) /\ Keep /\ Agrees /\ Adv
T_RemoveData   == Is("ViewerRemoveData") /\ Bind /\ RemoveEffL(Ev.d) /\ Keep /\ Agrees /\ Adv
T_RemoveLayer  == Is("RemoveLayer") /\ Bind /\ layers' = layers \ {<<Ev.d, Ev.x>>} /\ Keep /\ Agrees /\ Adv
T_AddSubset    == Is("AddSubsetLayer") /\ Bind /\ (IF Ev.ok THEN layers' = layers \cup {<<Ev.d, Ev.x>>} ELSE layers' = layers) /\ Keep /\ Agrees /\ Adv

NextTrace ==
    /\ Live
    /\ eix > Len(Traces[tix])
    /\ tix' = tix + 1 /\ eix' = 1
    /\ coll' = {} /\ groups' = {} /\ alone' = {} /\ layers' = {}
    /\ Keep
    /\ (IF tix > TLCGet(42) THEN TLCSet(42, tix) ELSE TRUE)

TInit == Init /\ tix = 1 /\ eix = 1 /\ TLCSet(42, 0) /\ TLCSet(43, 0)
TNext == T_Adopt \/ T_Append \/ T_Remove \/ T_NewGroup \/ T_RemoveGroup \/ T_NewAlone \/ T_DeleteAlone \/ T_AddData \/ T_RemoveData
         \/ T_RemoveLayer \/ T_AddSubset \/ NextTrace
TSpec == TInit /\ [][TNext]_tvars

Track == IF tix * 100000 + eix > TLCGet(43) THEN TLCSet(43, tix * 100000 + eix) ELSE TRUE
Accepted == PrintT(<<"FURTHEST", TLCGet(42), TLCGet(43)>>) /\ TLCGet(42) = Len(Traces)
=============================================================================
