--------------------------------- MODULE VersionContent ---------------------------------
(* What every protocol version of the two container records carries (property C12, part c).

   A configuration is a pair of protocol versions (dv for Data records, cv for DataCollection
   records - every version registered in the current tree, extracted by the harness) and a set
   F of features that the saved collection exhibits.  Carried(dv, cv) is the set of features
   that a record pair of those versions represents (read off the savers: style since Data v2,
   one-to-one key joins since v3, tuple joins and uuid since v4, meta since v5; subset groups
   since DataCollection v2, the group counter since v3; derived components, links between
   datasets - as flattened component links before DataCollection v4, as helpers from v4 -,
   coordinates, categorical components and stand-alone subsets in every version).
   exp = F \cap Carried is what must be observed unchanged after save + load; the values of
   all stored components must always come back.                                          *)
EXTENDS Naturals, FiniteSets, TLC

CONSTANTS DataVers, DCVers, Features, MaxSmall, MinLarge   \* |F| <= MaxSmall or |F| >= MinLarge

VARIABLES cfg, exp, picked
vars == <<cfg, exp, picked>>

Always == {"derived", "extlink", "helper", "coords", "categorical", "subset"}
Carried(dv, cv) == Always
                   \cup (IF dv >= 2 THEN {"style"} ELSE {})
                   \cup (IF dv >= 3 THEN {"join11"} ELSE {})
                   \cup (IF dv >= 4 THEN {"joinNN", "uuid"} ELSE {})
                   \cup (IF dv >= 5 THEN {"meta"} ELSE {})
                   \cup (IF cv >= 2 THEN {"group"} ELSE {})
                   \cup (IF cv >= 3 THEN {"sgcount"} ELSE {})
(* an object that a version can be asked to write: tuple joins did not exist before Data v4 *)
Writable(dv, F) == ("joinNN" \in F) => dv >= 4

Init == cfg = [dv |-> 0, cv |-> 0, F |-> {}] /\ exp = {} /\ picked = FALSE
Pick ==
    /\ ~picked
    /\ picked' = TRUE
    /\ \E dv \in DataVers, cv \in DCVers, F \in SUBSET Features :
         /\ Cardinality(F) <= MaxSmall \/ Cardinality(F) >= MinLarge
         /\ Writable(dv, F)
         /\ cfg' = [dv |-> dv, cv |-> cv, F |-> F]
         /\ exp' = F \cap Carried(dv, cv)
Next == Pick
Spec == Init /\ [][Next]_vars

(* newer versions carry at least what older ones do; the newest carries every feature *)
MaxOf(S) == CHOOSE m \in S : \A x \in S : x <= m
Inv_Monotone == \A dv \in DataVers, cv \in DCVers, dw \in DataVers, cw \in DCVers :
                    (dv <= dw /\ cv <= cw) => Carried(dv, cv) \subseteq Carried(dw, cw)
Inv_NewestCarriesAll == Features \subseteq Carried(MaxOf(DataVers), MaxOf(DCVers))
Inv_ExpWithin == picked => exp \subseteq cfg.F
=============================================================================
