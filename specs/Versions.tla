------------------------------------ MODULE Versions ------------------------------------
(* Serialisation protocol versions (property C12).

   (a) VersionedDict as a state machine.  Set(k, v) is accepted iff v is the next version of
       k (1 for a new key, otherwise the highest stored version + 1); a refused call leaves
       the dictionary exactly as it was - in particular a key without any version does not
       become "present"; nothing is ever overwritten or deleted; Get returns the highest.
       TLC enumerates call sequences (E1: replayed into the real VersionedDict).

   (b) The registries and the rename table of the CURRENT tree are extracted by the harness
       and given as constants (Versions_Gen.tla):
         Reg       set of <<type, role, version>> with role in {"saver", "loader"}
         Patch     set of <<old, new>> (state_path_patches.txt)
         Defined   class paths this package defines and writes as _type today
         InPkg     targets that point into this package;  Importable  those that resolve
       TLC evaluates on them: versions consecutive from 1, a loader for every saver version of
       a loadable type, the walk along Patch terminates (no cycle), every terminal target
       inside the package is importable, no Patch key captures a Defined class.           *)
EXTENDS Naturals, Sequences, FiniteSets, TLC

CONSTANTS Keys, MaxV, MaxCalls,
          Reg, Patch, Defined, InPkg, Importable

VARIABLES vd, ncalls, last, act
vars == <<vd, ncalls, last, act>>

Top(k) == IF vd[k] = {} THEN 0 ELSE CHOOSE m \in vd[k] : \A x \in vd[k] : x <= m
A(op, k, v) == [op |-> op, k |-> k, v |-> v]
Res(ok, val) == [ok |-> ok, val |-> val]

Init == vd = [k \in Keys |-> {}] /\ ncalls = 0 /\ last = Res(TRUE, 0) /\ act = A("Init", "-", 0)

Call == ncalls < MaxCalls /\ ncalls' = ncalls + 1

Set(k, v) ==
    /\ Call
    /\ IF v = Top(k) + 1
       THEN vd' = [vd EXCEPT ![k] = @ \cup {v}] /\ last' = Res(TRUE, v)
       ELSE vd' = vd /\ last' = Res(FALSE, 0)
    /\ act' = A("Set", k, v)

Get(k) ==
    /\ Call
    /\ vd' = vd
    /\ last' = IF vd[k] = {} THEN Res(FALSE, 0) ELSE Res(TRUE, Top(k))
    /\ act' = A("Get", k, 0)

GetVersion(k, v) ==
    /\ Call
    /\ vd' = vd
    /\ last' = IF v \in vd[k] THEN Res(TRUE, v) ELSE Res(FALSE, 0)
    /\ act' = A("GetVersion", k, v)

Contains(k) ==
    /\ Call
    /\ vd' = vd
    /\ last' = Res(vd[k] # {}, 0)
    /\ act' = A("Contains", k, 0)

Delete(k) ==
    /\ Call
    /\ vd' = vd
    /\ last' = Res(FALSE, 0)
    /\ act' = A("Delete", k, 0)

Next == \E k \in Keys : (\E v \in 0..MaxV : Set(k, v) \/ GetVersion(k, v)) \/ Get(k) \/ Contains(k) \/ Delete(k)
Spec == Init /\ [][Next]_vars

Inv_ConsecutiveFromOne == \A k \in Keys : vd[k] = 1..Top(k)
Prop_WriteOnce == [][\A k \in Keys : vd[k] \subseteq vd'[k]]_vars

-----------------------------------------------------------------------------------------
(* (b) the real registries and rename table *)
Types == {r[1] : r \in Reg}
Vers(t, role) == {r[3] : r \in {x \in Reg : x[1] = t /\ x[2] = role}}
MaxOf(S) == CHOOSE m \in S : \A x \in S : x <= m
Reg_Consecutive == \A t \in Types : \A role \in {"saver", "loader"} :
                       Vers(t, role) # {} => Vers(t, role) = 1..MaxOf(Vers(t, role))
Reg_LoaderForEverySaver == \A t \in Types : Vers(t, "loader") # {} => Vers(t, "saver") \subseteq Vers(t, "loader")

PatchKeys == {p[1] : p \in Patch}
Target(k) == (CHOOSE p \in Patch : p[1] = k)[2]
RECURSIVE Walk(_, _)
Walk(name, fuel) == IF name \notin PatchKeys THEN name ELSE IF fuel = 0 THEN "<<cycle>>" ELSE Walk(Target(name), fuel - 1)
Terminal(k) == Walk(k, Cardinality(Patch) + 1)
Patch_Functional == \A p, q \in Patch : p[1] = q[1] => p = q
Patch_Terminates == \A k \in PatchKeys : Terminal(k) # "<<cycle>>"
Patch_TargetsResolve == \A k \in PatchKeys : Terminal(k) \in InPkg => Terminal(k) \in Importable
Patch_NoCapture == PatchKeys \cap Defined = {}
(* where every old name must end up: compared by the harness with what lookup_class_with_patches really resolves *)
Terminals == [k \in PatchKeys |-> Terminal(k)]
=============================================================================
