---- MODULE Versions_Gen ----
\* placeholder: regenerated from the current tree by harness/checks/c12.py at every run
g_Reg == {<<"T", "saver", 1>>, <<"T", "loader", 1>>}
g_Patch == {<<"a.B", "c.D">>}
g_Defined == {}
g_InPkg == {}
g_Importable == {}
g_DataVers == {1}
g_DCVers == {1}
====
