------------------------------------- MODULE Viewer -------------------------------------
(* Viewers and attribute pickers mirror the collection (property C18).

   Part 1 - layers.  Abstract state: the datasets of the collection, the live subset groups,
   the stand-alone subsets (Data.new_subset, not in a group) and the set `layers` of layers
   the viewer must hold: <<d, 0>> the layer of dataset d, <<d, g>> (g = 1..MaxGroups) the layer
   of d's subset in group g, <<d, 9>> the layer of d's stand-alone subset.
       add_data(d)       adds d's layer and one layer for each of d's current subsets
       a new subset      of a dataset whose own layer is shown gets a layer
       remove_data(d)    removes every layer of d - also when only subset layers of d are left
       remove_layer(k)   (the user deletes one layer) removes exactly that layer
       add_subset(k)     adds exactly that subset's layer
       a dataset that leaves the collection, a removed group, a deleted subset: all their
       layers disappear (re-appending the dataset does not bring layers back)
   Required after every step (when no hub delay block is open): the viewer holds exactly
   `layers`, each once; the viewer's layer list and its state's layer list agree; saving and
   restoring the viewer is the identity; every picker of the viewer's state selects one of
   its choices (or nothing when there is none) and offers only attributes of datasets that
   are in the collection.

   Part 2 - attribute pickers (ComponentIDComboHelper).  Abstract state: the ordered
   attributes of each dataset with their kind, the datasets given to the picker, the kind
   filters and the selection.  Required:
       Choices = per dataset: stored attributes whose kind is enabled, then derived ones (if
                 numeric and derived are enabled), then pixel, then world (if enabled)
       the selection is one of the choices, or nothing exactly when there is none
   (which one is selected after the previous choice disappeared is not constrained).      *)
EXTENDS Naturals, Sequences, FiniteSets, TLC

CONSTANTS Data, MaxGroups, MaxDelay, MaxLayerOps, AttrMenu, Filters

VARIABLES coll, groups, ngrp, alone, layers, delay, nlay,      \* part 1
          attrs, pdata, filt, sel,                  \* part 2
          act
v1 == <<coll, groups, ngrp, alone, layers, delay, nlay>>
v2 == <<attrs, pdata, filt, sel>>
vars == <<v1, v2, act>>

A(op, d, x) == [op |-> op, d |-> d, x |-> x]

(* ---- part 1 ---- *)
SubsOf(d) == {<<d, g>> : g \in groups} \cup {k \in alone : k[1] = d}      \* stand-alone subsets are numbered from 9
Shown(d) == <<d, 0>> \in layers                       \* the dataset's own layer is in the viewer
Of(d) == {k \in layers : k[1] = d}
U1 == UNCHANGED v2
(* effects on the layer set, reused by Trace_Viewer.tla *)
RemoveEffL(d) == layers' = layers \ Of(d)
NewGroupEffL(g) == layers' = layers \cup {<<d, g>> : d \in {x \in coll : Shown(x)}}
RemoveGroupEffL(g) == layers' = {k \in layers : k[2] # g}
NewAloneEffL(d, x) == layers' = IF Shown(d) THEN layers \cup {<<d, x>>} ELSE layers
AddDataEffL(d) == layers' = IF Shown(d) THEN layers ELSE layers \cup {<<d, 0>>} \cup SubsOf(d)

Append_(d) == d \notin coll /\ coll' = coll \cup {d} /\ act' = A("Append", d, 0) /\ UNCHANGED <<groups, ngrp, alone, layers, delay, nlay>> /\ U1
Remove_(d) == d \in coll /\ coll' = coll \ {d} /\ RemoveEffL(d) /\ act' = A("Remove", d, 0)
              /\ UNCHANGED <<groups, ngrp, alone, delay, nlay>> /\ U1
NewGroup == /\ ngrp < MaxGroups /\ ngrp' = ngrp + 1 /\ groups' = groups \cup {ngrp + 1}
            /\ NewGroupEffL(ngrp + 1)
            /\ act' = A("NewGroup", "-", ngrp + 1) /\ UNCHANGED <<coll, alone, delay, nlay>> /\ U1
RemoveGroup(g) == g \in groups /\ groups' = groups \ {g} /\ RemoveGroupEffL(g)
                  /\ act' = A("RemoveGroup", "-", g) /\ UNCHANGED <<coll, ngrp, alone, delay, nlay>> /\ U1
NewAlone(d) == /\ d \in coll /\ <<d, 9>> \notin alone /\ alone' = alone \cup {<<d, 9>>}
               /\ NewAloneEffL(d, 9)
               /\ act' = A("NewAlone", d, 9) /\ UNCHANGED <<coll, groups, ngrp, delay, nlay>> /\ U1
DeleteAlone(d) == /\ d \in coll /\ <<d, 9>> \in alone /\ alone' = alone \ {<<d, 9>>} /\ layers' = layers \ {<<d, 9>>}
                  /\ act' = A("DeleteAlone", d, 9) /\ UNCHANGED <<coll, groups, ngrp, delay, nlay>> /\ U1
AddData(d) == /\ delay = 0 /\ d \in coll /\ ~Shown(d) /\ AddDataEffL(d)
              /\ act' = A("ViewerAddData", d, 0) /\ UNCHANGED <<coll, groups, ngrp, alone, delay, nlay>> /\ U1
RemoveData(d) == /\ delay = 0 /\ Of(d) # {} /\ RemoveEffL(d)
                 /\ act' = A("ViewerRemoveData", d, 0) /\ UNCHANGED <<coll, groups, ngrp, alone, delay, nlay>> /\ U1
RemoveLayer(k) == /\ delay = 0 /\ k \in layers /\ nlay < MaxLayerOps /\ nlay' = nlay + 1 /\ layers' = layers \ {k}
                  /\ act' = A("RemoveLayer", k[1], k[2]) /\ UNCHANGED <<coll, groups, ngrp, alone, delay>> /\ U1
AddSubsetLayer(k) == /\ delay = 0 /\ k[1] \in coll /\ k \in SubsOf(k[1]) /\ k \notin layers /\ nlay < MaxLayerOps /\ nlay' = nlay + 1
                     /\ layers' = layers \cup {k}
                     /\ act' = A("AddSubsetLayer", k[1], k[2]) /\ UNCHANGED <<coll, groups, ngrp, alone, delay>> /\ U1
(* a session restore deliberately turns stand-alone subsets into subset groups (coerce_subset_groups): sessions with
   stand-alone subsets are outside this model's SaveRestore *)
SaveRestore == delay = 0 /\ alone = {} /\ act' = A("SaveRestoreViewer", "-", 0) /\ UNCHANGED <<v1, v2>>
DelayEnter == delay < MaxDelay /\ delay' = delay + 1 /\ act' = A("DelayEnter", "-", 0) /\ UNCHANGED <<coll, groups, ngrp, alone, layers, nlay>> /\ U1
DelayExit == delay > 0 /\ delay' = delay - 1 /\ act' = A("DelayExit", "-", 0) /\ UNCHANGED <<coll, groups, ngrp, alone, layers, nlay>> /\ U1

(* ---- part 2 ---- *)
Kinds == {"num", "cat", "time", "derived"}
Enabled(k) == CASE k = "num" -> filt.numeric [] k = "cat" -> filt.categorical [] k = "time" -> filt.datetime [] k = "derived" -> filt.numeric /\ filt.derived
ChoicesOf(d) ==
    SelectSeq(attrs[d], LAMBDA a : a.k \in {"num", "cat", "time"} /\ Enabled(a.k)) \o
    SelectSeq(attrs[d], LAMBDA a : a.k = "derived" /\ Enabled("derived"))
RECURSIVE Cat(_)
Cat(ds) == IF ds = <<>> THEN <<>> ELSE [i \in 1..Len(ChoicesOf(Head(ds))) |-> [d |-> Head(ds), n |-> ChoicesOf(Head(ds))[i].n]] \o Cat(Tail(ds))
Choices == Cat(pdata)
ChoiceSet == {Choices[i] : i \in DOMAIN Choices}
NoSel == [d |-> "-", n |-> "-"]
SelOK == IF ChoiceSet = {} THEN sel = NoSel ELSE sel \in ChoiceSet
(* after a change the picker keeps the selection if it is still a choice, otherwise any choice is acceptable:
   the spec records "free" and the harness only checks membership *)
Fix == sel' = IF sel \in ChoiceSet' THEN sel ELSE (IF ChoiceSet' = {} THEN NoSel ELSE [d |-> "?", n |-> "?"])

PAdd(d) == d \notin {pdata[i] : i \in DOMAIN pdata} /\ pdata' = Append(pdata, d) /\ UNCHANGED <<attrs, filt>> /\ Fix
           /\ act' = A("PickerAddData", d, 0) /\ UNCHANGED v1
PRemove(d) == d \in {pdata[i] : i \in DOMAIN pdata} /\ pdata' = SelectSeq(pdata, LAMBDA x : x # d) /\ UNCHANGED <<attrs, filt>> /\ Fix
              /\ act' = A("PickerRemoveData", d, 0) /\ UNCHANGED v1
AttrAdd(d, a) == a \notin {attrs[d][i] : i \in DOMAIN attrs[d]} /\ attrs' = [attrs EXCEPT ![d] = Append(@, a)] /\ UNCHANGED <<pdata, filt>> /\ Fix
                 /\ act' = A("AttrAdd", d, a) /\ UNCHANGED v1
AttrRemove(d, a) == a \in {attrs[d][i] : i \in DOMAIN attrs[d]} /\ Len(attrs[d]) > 1
                    /\ attrs' = [attrs EXCEPT ![d] = SelectSeq(@, LAMBDA x : x # a)] /\ UNCHANGED <<pdata, filt>> /\ Fix
                    /\ act' = A("AttrRemove", d, a) /\ UNCHANGED v1
AttrReorder(d) == Len(attrs[d]) > 1 /\ attrs' = [attrs EXCEPT ![d] = Append(Tail(@), Head(@))] /\ UNCHANGED <<pdata, filt>> /\ Fix
                  /\ act' = A("AttrReorder", d, 0) /\ UNCHANGED v1
SetFilter(f) == filt' = f /\ f # filt /\ UNCHANGED <<attrs, pdata>> /\ Fix /\ act' = A("SetFilter", "-", f) /\ UNCHANGED v1
Select(i) == i \in DOMAIN Choices /\ sel' = Choices[i] /\ UNCHANGED <<attrs, pdata, filt>> /\ act' = A("Select", "-", i) /\ UNCHANGED v1

Init ==
    /\ coll = {} /\ groups = {} /\ ngrp = 0 /\ alone = {} /\ layers = {} /\ delay = 0 /\ nlay = 0
    /\ attrs = [d \in Data |-> <<[n |-> "a", k |-> "num"]>>]
    /\ pdata = <<>>
    /\ filt = [numeric |-> TRUE, categorical |-> TRUE, derived |-> TRUE, datetime |-> TRUE]
    /\ sel = NoSel
    /\ act = A("Init", "-", 0)

Next1 ==
    \/ \E d \in Data : Append_(d) \/ Remove_(d) \/ AddData(d) \/ RemoveData(d) \/ NewAlone(d) \/ DeleteAlone(d)
    \/ \E d \in Data, x \in 0..9 : RemoveLayer(<<d, x>>) \/ AddSubsetLayer(<<d, x>>)
    \/ NewGroup
    \/ \E g \in 1..MaxGroups : RemoveGroup(g)
    \/ SaveRestore \/ DelayEnter \/ DelayExit
Next2 ==
    \/ \E d \in Data : PAdd(d) \/ PRemove(d) \/ AttrReorder(d)
    \/ \E d \in Data, a \in AttrMenu : AttrAdd(d, a) \/ AttrRemove(d, a)
    \/ \E f \in Filters : SetFilter(f)
    \/ \E i \in 1..6 : Select(i)

Spec1 == Init /\ [][Next1]_vars
Spec2 == Init /\ [][Next2]_vars

Inv_LayersInColl == \A k \in layers : k[1] \in coll /\ (k[2] = 0 \/ k \in SubsOf(k[1]))
Inv_SelectionIsAChoice == (sel.d # "?") => SelOK
=============================================================================
