------------------------------------- MODULE Viewer -------------------------------------
(* Viewers and attribute pickers mirror the collection (property C18).

   Part 1 - layers.  Abstract state: the datasets of the collection, the live subset groups,
   and the set of datasets GIVEN to the viewer.  Required after every step (when no hub
   delay block is open):
       Layers = {d : d given and in the collection} + {<<d, g>> : such d, g a live group}
   each exactly once; the viewer's layer list and its state's layer list agree; a dataset
   that leaves the collection is forgotten by the viewer (re-appending it does not bring
   its layers back); saving and restoring the viewer is the identity.

   Part 2 - attribute pickers (ComponentIDComboHelper).  Abstract state: the ordered
   attributes of each dataset with their kind, the datasets given to the picker, the kind
   filters and the selection.  Required:
       Choices = per dataset: stored attributes whose kind is enabled, then derived ones (if
                 numeric and derived are enabled), then pixel, then world (if enabled)
       the selection is one of the choices, or nothing exactly when there is none
   (which one is selected after the previous choice disappeared is not constrained).      *)
EXTENDS Naturals, Sequences, FiniteSets, TLC

CONSTANTS Data, MaxGroups, MaxDelay, AttrMenu, Filters

VARIABLES coll, groups, ngrp, given, delay,       \* part 1
          attrs, pdata, filt, sel,                  \* part 2
          act
v1 == <<coll, groups, ngrp, given, delay>>
v2 == <<attrs, pdata, filt, sel>>
vars == <<v1, v2, act>>

A(op, d, x) == [op |-> op, d |-> d, x |-> x]

(* ---- part 1 ---- *)
ExpLayers == {<<d, 0>> : d \in given \cap coll} \cup {<<d, g>> : d \in given \cap coll, g \in groups}

Append_(d) == d \notin coll /\ coll' = coll \cup {d} /\ act' = A("Append", d, 0) /\ UNCHANGED <<groups, ngrp, given, delay, v2>>
Remove_(d) == d \in coll /\ coll' = coll \ {d} /\ given' = given \ {d} /\ act' = A("Remove", d, 0) /\ UNCHANGED <<groups, ngrp, delay, v2>>
NewGroup == ngrp < MaxGroups /\ ngrp' = ngrp + 1 /\ groups' = groups \cup {ngrp + 1} /\ act' = A("NewGroup", "-", ngrp + 1)
            /\ UNCHANGED <<coll, given, delay, v2>>
RemoveGroup(g) == g \in groups /\ groups' = groups \ {g} /\ act' = A("RemoveGroup", "-", g) /\ UNCHANGED <<coll, ngrp, given, delay, v2>>
AddData(d) == delay = 0 /\ d \in coll /\ d \notin given /\ given' = given \cup {d} /\ act' = A("ViewerAddData", d, 0) /\ UNCHANGED <<coll, groups, ngrp, delay, v2>>
RemoveData(d) == delay = 0 /\ d \in given /\ given' = given \ {d} /\ act' = A("ViewerRemoveData", d, 0) /\ UNCHANGED <<coll, groups, ngrp, delay, v2>>
SaveRestore == delay = 0 /\ act' = A("SaveRestoreViewer", "-", 0) /\ UNCHANGED <<v1, v2>>
DelayEnter == delay < MaxDelay /\ delay' = delay + 1 /\ act' = A("DelayEnter", "-", 0) /\ UNCHANGED <<coll, groups, ngrp, given, v2>>
DelayExit == delay > 0 /\ delay' = delay - 1 /\ act' = A("DelayExit", "-", 0) /\ UNCHANGED <<coll, groups, ngrp, given, v2>>

(* ---- part 2 ---- *)
Kinds == {"num", "cat", "derived"}
Enabled(k) == CASE k = "num" -> filt.numeric [] k = "cat" -> filt.categorical [] k = "derived" -> filt.numeric /\ filt.derived
ChoicesOf(d) ==
    SelectSeq(attrs[d], LAMBDA a : a.k \in {"num", "cat"} /\ Enabled(a.k)) \o
    SelectSeq(attrs[d], LAMBDA a : a.k = "derived" /\ Enabled("derived"))
RECURSIVE Cat(_)
Cat(ds) == IF ds = <<>> THEN <<>> ELSE [i \in 1..Len(ChoicesOf(Head(ds))) |-> [d |-> Head(ds), n |-> ChoicesOf(Head(ds))[i].n]] \o Cat(Tail(ds))
Choices == Cat(pdata)
ChoiceSet == {Choices[i] : i \in DOMAIN Choices}
NoSel == [d |-> "-", n |-> "-"]
SelOK == IF ChoiceSet = {} THEN sel = NoSel ELSE sel \in ChoiceSet
(* after a change the picker keeps the selection if it is still a choice, otherwise any choice is acceptable:
   the spec records "free" and the harness only checks membership *)
Fix == sel' = IF sel \in ChoiceSet' THEN sel ELSE (IF ChoiceSet' = {} THEN NoSel ELSE [d |-> "?", n |-> "?"])

PAdd(d) == d \notin {pdata[i] : i \in DOMAIN pdata} /\ pdata' = Append(pdata, d) /\ UNCHANGED <<attrs, filt>> /\ Fix
           /\ act' = A("PickerAddData", d, 0) /\ UNCHANGED v1
PRemove(d) == d \in {pdata[i] : i \in DOMAIN pdata} /\ pdata' = SelectSeq(pdata, LAMBDA x : x # d) /\ UNCHANGED <<attrs, filt>> /\ Fix
              /\ act' = A("PickerRemoveData", d, 0) /\ UNCHANGED v1
AttrAdd(d, a) == a \notin {attrs[d][i] : i \in DOMAIN attrs[d]} /\ attrs' = [attrs EXCEPT ![d] = Append(@, a)] /\ UNCHANGED <<pdata, filt>> /\ Fix
                 /\ act' = A("AttrAdd", d, a) /\ UNCHANGED v1
AttrRemove(d, a) == a \in {attrs[d][i] : i \in DOMAIN attrs[d]} /\ Len(attrs[d]) > 1
                    /\ attrs' = [attrs EXCEPT ![d] = SelectSeq(@, LAMBDA x : x # a)] /\ UNCHANGED <<pdata, filt>> /\ Fix
                    /\ act' = A("AttrRemove", d, a) /\ UNCHANGED v1
AttrReorder(d) == Len(attrs[d]) > 1 /\ attrs' = [attrs EXCEPT ![d] = Append(Tail(@), Head(@))] /\ UNCHANGED <<pdata, filt>> /\ Fix
                  /\ act' = A("AttrReorder", d, 0) /\ UNCHANGED v1
SetFilter(f) == filt' = f /\ f # filt /\ UNCHANGED <<attrs, pdata>> /\ Fix /\ act' = A("SetFilter", "-", f) /\ UNCHANGED v1
Select(i) == i \in DOMAIN Choices /\ sel' = Choices[i] /\ UNCHANGED <<attrs, pdata, filt>> /\ act' = A("Select", "-", i) /\ UNCHANGED v1

Init ==
    /\ coll = {} /\ groups = {} /\ ngrp = 0 /\ given = {} /\ delay = 0
    /\ attrs = [d \in Data |-> <<[n |-> "a", k |-> "num"]>>]
    /\ pdata = <<>>
    /\ filt = [numeric |-> TRUE, categorical |-> TRUE, derived |-> TRUE]
    /\ sel = NoSel
    /\ act = A("Init", "-", 0)

Next1 ==
    \/ \E d \in Data : Append_(d) \/ Remove_(d) \/ AddData(d) \/ RemoveData(d)
    \/ NewGroup
    \/ \E g \in 1..MaxGroups : RemoveGroup(g)
    \/ SaveRestore \/ DelayEnter \/ DelayExit
Next2 ==
    \/ \E d \in Data : PAdd(d) \/ PRemove(d) \/ AttrReorder(d)
    \/ \E d \in Data, a \in AttrMenu : AttrAdd(d, a) \/ AttrRemove(d, a)
    \/ \E f \in Filters : SetFilter(f)
    \/ \E i \in 1..6 : Select(i)

Spec1 == Init /\ [][Next1]_vars
Spec2 == Init /\ [][Next2]_vars

Inv_GivenInColl == given \subseteq coll
Inv_SelectionIsAChoice == (sel.d # "?") => SelOK
=============================================================================
