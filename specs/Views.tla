----------------------------------- MODULE Views -----------------------------------
(* Index semantics of array views (property C04; used by C10, C14, C15, C16, C20).

   A configuration is a shape (1 to MaxDim dimensions, each of length 1..MaxLen) and a
   view in the domain glue supports:
       "none" / "ellipsis"      the whole array
       "tuple"                  a tuple, possibly shorter than the dimensionality, whose
                                items are integers or positive-step slices
       "arrays"                 a tuple of integer index arrays, one per dimension
       "mask"                   a boolean mask of the dataset's shape
   For each configuration TLC computes from first principles
       exp.rshape   the shape of the result
       exp.src      for every position of the result, in C order, the FLAT C-order index
                    of the source element it must hold
   The harness never uses numpy indexing to predict a result: it takes the full-size
   result (values or mask, requested WITHOUT a view, on fresh objects) and requires the
   viewed request to equal full.flat[src] reshaped to rshape.

   The module has one action, Pick, which chooses a configuration from a trivial initial
   state, so that TLC's workers share the enumeration; `tlc -dump` exports all of them.   *)
EXTENDS Naturals, Sequences, FiniteSets, TLC

CONSTANTS
    MaxDim,      \* maximal dimensionality
    MaxLen,      \* maximal length of a dimension
    FullItems,   \* TRUE: every integer and every slice 0 <= b,e <= n, 1 <= s <= MaxStep; FALSE: a curated set
    MaxStep,
    MaxArr       \* maximal length of integer index arrays

VARIABLES cfg, exp, picked
vars == <<cfg, exp, picked>>

Shapes == UNION {[1..n -> 1..MaxLen] : n \in 1..MaxDim}

Int(i) == [t |-> "int", b |-> i, e |-> 0, s |-> 1]
Slice(b, e, s) == [t |-> "slice", b |-> b, e |-> e, s |-> s]

ItemsFor(n) ==
    IF FullItems
    THEN {Int(i) : i \in 0..(n - 1)} \cup {Slice(b, e, s) : b \in 0..n, e \in 0..n, s \in 1..MaxStep}
    ELSE {Int(0), Int(n - 1), Slice(0, n, 1), Slice(1, n, 1), Slice(0, n - 1, 1), Slice(0, n, 2),
          Slice(1, n, 2), Slice(0, 0, 1), Slice(n - 1, n, 1)}

(* source indices selected along one dimension *)
Count(it) == IF it.e > it.b THEN (it.e - it.b + it.s - 1) \div it.s ELSE 0
DimIdx(it) == IF it.t = "int" THEN <<it.b>> ELSE [k \in 1..Count(it) |-> it.b + (k - 1) * it.s]

(* C-order strides *)
RECURSIVE Stride(_, _)
Stride(shape, k) == IF k = Len(shape) THEN 1 ELSE shape[k + 1] * Stride(shape, k + 1)
Size(shape) == shape[1] * Stride(shape, 1)

RECURSIVE Concat(_)
Concat(ss) == IF ss = <<>> THEN <<>> ELSE Head(ss) \o Concat(Tail(ss))

(* flat source indices of the cartesian product of per-dimension index lists, C order *)
RECURSIVE Offsets(_, _, _)
Offsets(shape, lists, k) ==
    IF k > Len(shape) THEN <<0>>
    ELSE LET rest == Offsets(shape, lists, k + 1)
             st == Stride(shape, k) IN
         Concat([j \in 1..Len(lists[k]) |-> [m \in 1..Len(rest) |-> lists[k][j] * st + rest[m]]])

FullSlice(n) == Slice(0, n, 1)
Padded(shape, items) == [k \in 1..Len(shape) |-> IF k <= Len(items) THEN items[k] ELSE FullSlice(shape[k])]

TupleExp(shape, items) ==
    LET its == Padded(shape, items)
        lists == [k \in 1..Len(shape) |-> DimIdx(its[k])]
        kept == SelectSeq([k \in 1..Len(shape) |-> k], LAMBDA k : its[k].t = "slice") IN
    [rshape |-> [j \in 1..Len(kept) |-> Len(lists[kept[j]])],
     src |-> Offsets(shape, lists, 1)]

Flat(shape, multi) == LET F[k \in 0..Len(shape)] == IF k = 0 THEN 0 ELSE F[k - 1] + multi[k] * Stride(shape, k) IN F[Len(shape)]

ArraysExp(shape, pts) == [rshape |-> <<Len(pts)>>, src |-> [j \in 1..Len(pts) |-> Flat(shape, pts[j])]]

(* curated boolean masks, as sets of flat positions *)
Masks(shape) == LET N == Size(shape) IN
    {{}, 0..(N - 1), {p \in 0..(N - 1) : p % 2 = 0}, {0}, {N - 1}, {p \in 0..(N - 1) : p % 3 = 1}}
RECURSIVE SortedSeq(_)
SortedSeq(S) == IF S = {} THEN <<>> ELSE LET m == CHOOSE x \in S : \A y \in S : x <= y IN <<m>> \o SortedSeq(S \ {m})
MaskExp(shape, S) == [rshape |-> <<Cardinality(S)>>, src |-> SortedSeq(S)]

WholeExp(shape) == [rshape |-> shape, src |-> [p \in 1..Size(shape) |-> p - 1]]

Points(shape) == {m \in [1..Len(shape) -> 0..(MaxLen - 1)] : \A k \in 1..Len(shape) : m[k] < shape[k]}
(* index arrays: all sequences up to length MaxArr for 1-d/2-d shapes; for 3-d only the corner points *)
ArrPoints(shape) == IF Len(shape) <= 2 THEN Points(shape)
                    ELSE {m \in Points(shape) : \A k \in 1..Len(shape) : m[k] \in {0, shape[k] - 1}}

TupleViews(shape) == UNION {{its \in [1..k -> UNION {ItemsFor(shape[d]) : d \in 1..Len(shape)}] :
                               \A d \in 1..k : its[d] \in ItemsFor(shape[d])} : k \in 1..Len(shape)}

Init == cfg = [shape |-> <<1>>, kind |-> "init", items |-> <<>>, pts |-> <<>>, mask |-> {}] /\ exp = [rshape |-> <<>>, src |-> <<>>] /\ picked = FALSE

Cfg(shape, kind, items, pts, mask) == [shape |-> shape, kind |-> kind, items |-> items, pts |-> pts, mask |-> mask]

Pick ==
    /\ ~picked
    /\ picked' = TRUE
    /\ \E shape \in Shapes :
         \/ \E kind \in {"none", "ellipsis"} :
               cfg' = Cfg(shape, kind, <<>>, <<>>, {}) /\ exp' = WholeExp(shape)
         \/ \E items \in TupleViews(shape) :
               cfg' = Cfg(shape, "tuple", items, <<>>, {}) /\ exp' = TupleExp(shape, items)
         \/ \E L \in 1..MaxArr : \E pts \in [1..L -> ArrPoints(shape)] :
               cfg' = Cfg(shape, "arrays", <<>>, pts, {}) /\ exp' = ArraysExp(shape, pts)
         \/ \E S \in Masks(shape) :
               cfg' = Cfg(shape, "mask", <<>>, <<>>, S) /\ exp' = MaskExp(shape, S)

Next == Pick
Spec == Init /\ [][Next]_vars

-----------------------------------------------------------------------------------------
(* sanity of the index semantics itself *)
Prod(s) == LET F[k \in 0..Len(s)] == IF k = 0 THEN 1 ELSE F[k - 1] * s[k] IN F[Len(s)]
Inv_SizesAgree == picked => Len(exp.src) = Prod(exp.rshape)
Inv_InBounds == picked => \A j \in DOMAIN exp.src : exp.src[j] \in 0..(Size(cfg.shape) - 1)
\* slices never repeat an element; a whole-array view is the identity
Inv_TupleInjective == (picked /\ cfg.kind = "tuple") => \A i, j \in DOMAIN exp.src : i # j => exp.src[i] # exp.src[j]
Inv_WholeIdentity == (picked /\ cfg.kind \in {"none", "ellipsis"}) => \A j \in DOMAIN exp.src : exp.src[j] = j - 1
=============================================================================
