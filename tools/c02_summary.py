import sys, collections, warnings, json
sys.path.insert(0,'/verif'); sys.path.insert(0,'/repo')
warnings.simplefilter('ignore')
from harness import tlc
from harness.tlaval import to_json
from harness.adapters import session as A
from harness.checks import c02
k=A.kinds()
with tlc.Workdir() as wd:
    wd.write('Session_Gen.tla', '---- MODULE Session_Gen ----\ng_SelKinds == %s\ng_LinkKinds == %s\n====\n' % (c02._tla_set(k['sel']), c02._tla_set(k['links'])))
    res, g = tlc.dump_graph(wd, 'MC_Session.tla', 'GEN_Session_quick.cfg', timeout=600)
    items=[]
    for p in g.behaviours():
        sts=[g.state(n) for n in p]; acts=[to_json(s['act']) for s in sts[1:]]
        if acts and acts[-1]['op']=='SaveLoad': items.append({'shape': str(sts[0]['shape']), 'steps':[{'act':a} for a in acts]})
c=collections.Counter(); ex={}
for it in items:
    r=A.replay_one(it)
    if r is None or r[0]=='loud':
        if r: c[('LOUD', r[2][:60])]+=1
        continue
    kinds=tuple([s['act']['t']['op']+':'+s['act']['t']['a'] for s in it['steps'] if s['act']['op']=='NewGroup']+[s['act']['s'] for s in it['steps'] if s['act']['op']=='AddLink']+['join' for s in it['steps'] if s['act']['op']=='AddJoin'])
    comp=r[2].split('/')
    key=('/'.join(comp[:2]) if comp[0]=='restored' else r[2], kinds if len(kinds)<=1 else kinds)
    c[key]+=1; ex.setdefault(key,(r[2], str(r[3])[:60], str(r[4])[:100]))
for key,v in sorted(c.items(), key=lambda x: str(x[0])):
    if True: print(v, key, ex.get(key,""))
