import sys, json, collections, warnings
sys.path.insert(0,'/verif'); sys.path.insert(0,'/repo')
warnings.simplefilter('ignore')
from harness import tlc
from harness.tlaval import parse_state
from harness.checks import c04
from harness.adapters import views as A
with tlc.Workdir() as wd:
    res, chunks = tlc.dump_states(wd, 'MC_Views.tla', 'MC_Views_quick.cfg', timeout=300)
states=[parse_state(c) for c in chunks]
states=[s for s in states if s['picked']]
c=collections.Counter(); ex={}
for k,s in enumerate(states):
    cfg=c04._cfg(s); exp=c04._exp(s)
    for comp, e, a, note in A.check_config(cfg, exp, k%2):
        key=(comp, str(a)[:60] if isinstance(a,str) else 'wrong-value', cfg['kind'], 'scalar' if exp['rshape']==[] else ('empty' if not exp['src'] else 'n'), len(cfg['shape']))
        c[key]+=1
        if key not in ex: ex[key]=(cfg['shape'], A.concretise(cfg,k%2))
for k,v in sorted(c.items(), key=lambda x:-x[1]): print(v, k, '| e.g.', ex[k][0], repr(ex[k][1])[:80])
