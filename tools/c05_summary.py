import sys, collections, warnings, json
sys.path.insert(0,'/verif'); sys.path.insert(0,'/repo')
warnings.simplefilter('ignore')
from harness import tlc
from harness.checks import c05
from harness.adapters import memo as A
with tlc.Workdir() as wd:
    res, g = tlc.dump_graph(wd, 'MC_Memo.tla', 'GEN_Memo_quick.cfg', timeout=300)
    base = c05._base([[g.state(n) for n in p] for p in g.behaviours()])
items = c05._expand(base, 0, 2)
c=collections.Counter(); ex={}
for it in items:
    r=A.replay_one(it)
    if r:
        ops=[s['act'] for s in it['steps'][:r[0]+1]]
        muts=tuple(sorted(set((o['op'], o['b'] if o['op']=='MutateLeaf' else o['a'] if o['op']=='UpdateFromData' else '') for o in ops if o['op'] not in ('Setup','Evaluate'))))
        mk = tuple(sorted(set(it['kinds'][o['a']] for o in ops if o['op']=='MutateLeaf')))
        tree=ops[0]['a']; att=ops[0]['b']
        key=(r[1].split('[')[0], muts, mk, 'composite' if tree!='A' else 'leaf', att, it['kinds']['A'] if tree in ('A','not(A)') else '*')
        c[key]+=1
        ex.setdefault(key,(it['kinds'], [(o['op'],o['a'],o['b']) for o in ops], str(r[3])[:100]))
for k,v in sorted(c.items(), key=lambda x:-x[1])[:60]: print(v,k,'\n     ',ex[k])
print(len(c), sum(c.values()), len(items))
