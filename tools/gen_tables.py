#!/venv/bin/python
"""Prints markdown tables for DESIGN.md: seeded changes, fixes, open findings."""
import glob, json, os
print('| seeded change | property | what it needs to manifest (from the author\'s notes) | detected by |')
print('|---|---|---|---|')
for d in sorted(glob.glob('/verif/seeded/*')):
    m = json.load(open(os.path.join(d, 'meta.json')))
    need = ' '.join(m['needs_to_manifest'].split())[:230].replace('|', '/')
    print('| %s | %s | %s | %s |' % (m['id'], m['property'], need, m['detected_by'].replace('|', '/')))
print()
k = json.load(open('/verif/known_findings.json'))
print('| open finding | property | what fails |')
print('|---|---|---|')
for f in k['findings']:
    print('| %s | %s | %s |' % (f['id'], f['property'], f['what_fails'].replace('|', '/')))
print()
for f in k['fixed']:
    print('* ' + f)
