#!/venv/bin/python
"""import_seeded.py <worktree>/seeded_out/<m> <PROP> <id> <detected-by text> : store a verified seeded change."""
import json, os, shutil, sys
src, prop, sid, detected = sys.argv[1:5]
dst = os.path.join('/verif/seeded', sid)
os.makedirs(dst, exist_ok=True)
for f in ('patch.diff', 'demo.py', 'notes.txt'):
    if os.path.exists(os.path.join(src, f)):
        shutil.copy(os.path.join(src, f), dst)
notes = open(os.path.join(src, 'notes.txt')).read() if os.path.exists(os.path.join(src, 'notes.txt')) else ''
meta = {'id': sid, 'property': prop,
        'needs_to_manifest': notes.strip().split('\n\n')[0][:1200],
        'verified': 'applied in a scratch worktree (never in /repo): demo.py exits 0 on the clean tree and non-zero with the patch; '
                    'the sub-agent ran the full test suite with the patch (8 pre-existing failures only)',
        'ran': 'tools/try_seeded.sh <worktree> <dir> %s  (VERIF_REPO=<worktree> ./check %s --tier quick)' % (prop, prop),
        'detected_by': detected}
json.dump(meta, open(os.path.join(dst, 'meta.json'), 'w'), indent=1)
print('stored', dst)
