#!/venv/bin/python
"""Print the prompt for a seeding sub-agent: seed_prompt.py <PROP> <worktree> '<tests that must pass>' '<hints>'"""
import json, sys
pid, wt, tests, hints = sys.argv[1:5]
p = [json.loads(l) for l in open('/verif/properties.jsonl') if json.loads(l)['id'] == pid][0]
print(f"""You are helping test a verification framework by producing realistic *seeded defects* in a Python library. Work ONLY inside the git worktree {wt} (a checkout of the glue-viz/glue "glue-core" library). Do not read or touch /verif or /repo. Use `/venv/bin/python`; to import the worktree's code run with `cd {wt} && PYTHONPATH={wt} /venv/bin/python ...` (tests: `cd {wt} && /venv/bin/python -m pytest -q -p no:cacheprovider <files>`). No network. IMPORTANT: never use `git stash` (the stash is shared with other worktrees); use `git diff > file`, `git checkout -- .`, `git apply file`, `git apply -R file`.

Property under study (files: {', '.join(p['anchors']['files'])}):

"{p['title']}. {p['statement']}" Quantified over: {p['quantifier']['text']}.

Task: produce THREE different, independent small source changes (each a separate patch against the clean worktree) that BREAK this property while (a) the code still imports and (b) the existing test-suite still passes - at minimum these must pass: {tests}; ideally run the whole suite once per patch: `cd {wt} && /venv/bin/python -m pytest -q -p no:cacheprovider -n 6 --timeout=900 2>&1 | tail -15` (8 tests fail on the clean tree for unrelated reasons: test_excel_single, test_csv_pandas_factory, two in glue/core/tests/test_pandas.py, three in glue/core/data_factories/tests/test_pandas.py, test_wcs_autolink_emptywcs - ignore exactly those; an occasional setup ERROR in glue/viewers/histogram/tests/test_layer_artist.py is a load-related flake).

Prefer changes that need something specific to manifest - {hints} - not something the simplest use exposes at once. They should look like plausible mistakes or refactorings a developer could make.

For each patch i in 1..3 write into {wt}/seeded_out/m<i>/ : patch.diff (`git diff` against clean), demo.py (stand-alone, public API only, exits 0 on the clean tree and non-zero with the patch; run as `PYTHONPATH=<tree> /venv/bin/python demo.py`), notes.txt (which clause breaks, what is needed to manifest, tests run with results). Restore the worktree (`git checkout -- .`) between patches; keep seeded_out (untracked). Verify each demo both ways yourself. Leave the worktree clean apart from seeded_out/. Report a short summary.""")
