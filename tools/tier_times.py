#!/venv/bin/python
"""Prints a markdown table of measured wall times per check and tier from `vp run` logs given on the command line."""
import re, sys
rows = {}
for path in sys.argv[1:]:
    for line in open(path, errors='replace'):
        m = re.match(r'(C\d\d) (quick|thorough): (HELD|VIOLATED)\s+\(states=(\d+) transitions=(\d+) replayed=(\d+) steps=(\d+) traces=(\d+)/(\d+) wall=([\d.]+)s\)', line)
        if m:
            rows.setdefault(m.group(1), {})[m.group(2)] = (m.group(3), int(m.group(4)), int(m.group(6)), int(m.group(8)), float(m.group(10)))
print('| check | quick: states / behaviours replayed / traces / wall | thorough: states / behaviours replayed / traces / wall |')
print('|---|---|---|')
for c in sorted(rows):
    def f(t):
        r = rows[c].get(t)
        return '-' if r is None else '%d / %d / %d / %.0f s' % (r[1], r[2], r[3], r[4])
    print('| %s | %s | %s |' % (c, f('quick'), f('thorough')))
