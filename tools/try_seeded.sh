#!/bin/sh
# usage: try_seeded.sh <worktree> <dir with patch.diff [demo.py]> <PROP> [tier]
# Applies the seeded change in a scratch worktree (never in /repo), runs the demo and the check against it, reverts.
wt=$1; sd=$2; prop=$3; tier=${4:-quick}
cd "$wt" || exit 2
git checkout -q -- . || exit 2
if [ -f "$sd/demo.py" ]; then
  PYTHONPATH="$wt" /venv/bin/python "$sd/demo.py" >/dev/null 2>&1; echo "demo on clean tree: exit $?"
fi
git apply "$sd/patch.diff" || { echo "patch does not apply"; exit 2; }
if [ -f "$sd/demo.py" ]; then
  PYTHONPATH="$wt" /venv/bin/python "$sd/demo.py" >/dev/null 2>&1; echo "demo on patched tree: exit $?"
fi
cd /verif && VERIF_REPO="$wt" timeout 1800 ./check "$prop" --tier "$tier" 2>&1 | grep -E "VIOLATION|KNOWN|HELD|VIOLATED|MACHINERY|step " | head -8
echo "check exit: $?"
cd "$wt" && git checkout -q -- .
