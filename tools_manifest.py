#!/venv/bin/python
"""Regenerates MANIFEST.json from the table below (kept in one place so it stays valid)."""
import json
import os

ROOT = os.path.dirname(os.path.abspath(__file__))

CHECKS = {
    'C07': dict(
        text='Hub.tla (small-step requirement spec with an explicit control stack so that handlers may re-enter the hub) is '
             'model-checked by TLC for every clause of C07; every transition of a generation graph and random deep walks are '
             'replayed into a real glue Hub with real HubListeners whose handlers perform the planned nested calls, comparing '
             'each handler invocation; HubImpl.tla (flag/counter/queue as in hub.py) is checked for the same clauses. In the '
             'other direction executions of the real Hub - a random driver (6 listeners, 7 classes in a 3-level tree, '
             'arbitrary filters, handlers running nested programs, exceptions through delay blocks) and the repository\'s own '
             'tests - are recorded by an external tracer and validated by TLC against Trace_Hub.tla, which reuses Hub.tla\'s '
             'actions; nine kinds of impossible trace (lost/reordered queued message, delivery during a delay block, wrong '
             'subscription consulted, double delivery, ...) must be rejected on every run (binding self-test).',
        note='Model bounded: 2-3 listeners, 2-4 message classes in a tree, <=6 messages, <=3 nested blocks. Traces: a few hundred '
             '(quick) to thousands (thorough) executions of <=400 events; handlers that raise end the trace (prefix validated); '
             'blocks closed LIFO (others skipped as outside the domain). Trusted: TLC, the TLA+ value parser, '
             'harness/adapters/hub.py, harness/glue_tracer.py (event emission order).',
        technique='TLA+ spec + TLC; behaviour replay into real Hub (spec->code) and TLC trace validation of recorded executions (code->spec)',
        design='7/C07'),
    'C06': dict(
        text='Collection.tla states what C06 requires as a function of the abstract collection/group state; TLC enumerates every '
             'history to a depth bound (append, remove, re-append, new/remove group, set state/label/colour, merge, clear, '
             'session save+restore, hub delay blocks) and random deep walks; each is executed on a real DataCollection and the '
             'projection (dc.data, subset_groups, d.subsets, g.subsets, masks, labels, colours) compared after every step. '
             'CollectionImpl.tla describes HOW the code keeps membership (add/delete messages, group handlers, the hub queue under '
             'delay blocks): TLC proves the membership invariant for the repaired design, refutes the two designs of the pinned '
             'commit, and its behaviours are replayed comparing Data.subsets / SubsetGroup.subsets / queue after every step, also '
             'inside delay blocks. '
             'In the other direction the DataCollections of the repository\'s own tests are recorded by an external tracer (every '
             'append/remove/new_subset_group/remove_subset_group with the membership projected after the call, session restores '
             'observed) and validated by TLC against Trace_Collection.tla, which reuses Collection.tla and requires the C06 membership '
             'after every call; seven kinds of impossible trace must be rejected on every run.',
        note='Bounded: 3 datasets + merge results, <=4 groups, depth 6-7 exhaustive, 25-40 random. Membership is compared when no '
             'hub delay block is open; datasets outside the collection are unconstrained. Trusted: TLC, value parser, '
             'harness/adapters/collection.py.',
        technique='TLA+ spec + TLC; behaviour replay into real DataCollection (spec->code) and TLC trace validation of recorded executions (code->spec)',
        design='7/C06'),
    'C13': dict(
        text='Commands.tla (on top of Collection.tla) defines undo as restoring the snapshot taken before the command and redo '
             'as re-execution; TLC checks this on the spec and enumerates every do/undo/redo word to a depth plus random deep '
             'words over AddData, RemoveData, ApplySubsetState (all override modes) and ApplyROI, plus two undo-heavy graphs (every word '
             'of <= 8 commands across the command that created a group; every word of <= 7 commands across a dataset removal); each '
             'word runs on a real '
             'Session/CommandStack and datasets, groups, masks on every dataset, edit-subset choice and stack depths are '
             'compared after every step.',
        note='Bounded: 2-3 datasets, <=6 groups, MAX_UNDO set to the model bound (2-3). Collection compared as a set; group '
             'labels/colours not compared. Private reads: CommandStack._command_stack/_undo_stack lengths.',
        technique='TLA+ spec + TLC; behaviour replay into real Session/CommandStack (spec->code conformance)',
        design='7/C13'),
    'C03': dict(
        text='Links.tla computes by TLC, for every dataset and component, the length of a shortest chain of registered links (and '
             'inverses) and the links that may end it; TLC checks soundness/monotonicity of that requirement and enumerates '
             'histories of add/remove link, component and dataset, set_links and delayed link-manager updates; each runs on a real '
             'DataCollection: reachability (externally derivable components), values (composition of the link functions along an '
             'admissible shortest chain, by scalar arithmetic), masks of inequality selections, IncompatibleAttribute elsewhere, '
             'and absence of dangling references are compared after every step.',
        note='Bounded: 3 datasets x 2 components, menu of 8 affine links (one-way, two-way, 2-input, identity, cycle, two routes), '
             'depth 5 exhaustive + random walks. Arbitrary user link functions are not explored.',
        technique='TLA+ spec + TLC; behaviour replay into real DataCollection/LinkManager',
        design='7/C03'),
    'C11': dict(
        text='Joins.tla computes by TLC the set of admissible masks of every dataset for a selection living on a source dataset '
             '(key membership propagated along every simple join path; empty set = incompatible), for the four join shapes, chains, '
             'stars and cycles over 4 datasets; TLC checks the requirement and enumerates join/selection histories, which run on '
             'real Data objects (Data.join_on_key, JoinLink) under five storage variants of the key columns; masks (also under '
             'views) must be in the admissible set or raise IncompatibleAttribute.',
        note='Bounded: 4 datasets x 3 rows, 3 abstract keys, 8 joins in the menu, depth 5 exhaustive + random walks. Key storage: '
             'int widths, float, half-integers, string widths. NaN / -0.0 keys not explored.',
        technique='TLA+ spec + TLC; behaviour replay into real Data joins under storage variants',
        design='7/C11'),
    'C17': dict(
        text='DataStruct.tla models one dataset as the ordered list of its components (main/derived/pixel/world), coordinates, '
             'shape, label and hub attachment, and states for every call what must be announced (component-specific messages '
             'exactly, generic ones at least once, nothing when the call changed nothing or raised). TLC checks the structural '
             'clauses on the spec and enumerates every history of valid and invalid calls to a depth plus random walks; each runs '
             'on a real Data (inside a DataCollection with a recording listener) and component order/kinds, shape, label, '
             'uniqueness, pixel/world counts, per-component shapes, lookup by name and the announcements are compared per step.',
        note='Bounded: 3 stored + 3 derived attributes, 2-d, 3 coordinate kinds, depth 4-5 exhaustive + random walks. update_id / '
             'rename only for attributes without dependants; refresh from a dataset of the same dimensionality.',
        technique='TLA+ spec + TLC; behaviour replay into real Data with a hub message recorder',
        design='7/C17'),
    'C04': dict(
        text='Views.tla defines, from first principles, the result shape and the source index of every result position for every '
             'supported view (None, Ellipsis, integer/slice tuples possibly shorter than ndim, index arrays, boolean masks); TLC '
             'enumerates every (shape, view) configuration in the bound and checks the index semantics; each configuration is '
             'applied to every attribute kind (stored float with NaN/inf, int, categorical, derived, pixel, world, linked) and '
             'every elementary selection kind on a real dataset and must equal the full-size result re-indexed through the TLC '
             'index map; IndexedData values/masks/statistics/histograms are compared with the parent slice before and after '
             'changing its indices.',
        note='Bounded: shapes up to 3-d with lengths <= 3; quick uses a curated item set (7 slices + 2 ints per axis), thorough every '
             'slice with 0<=b,e<=n and step 1-2. Negative steps, np.newaxis and the empty tuple are outside the domain. Reference: '
             'the request without a view on fresh objects. Two open known findings (KF-C04-1, KF-C04-2).',
        technique='TLA+ spec as enumerator and index-map oracle (TLC -dump) + replay into real Data',
        design='7/C04'),
    'C20': dict(
        text='ArrayHelpers.tla: TLC enumerates every pair of normalised positive-step slices over every length in the bound, every '
             'broadcast pattern and every small categorical array, computing the expected positions / shapes / categories and codes, '
             'and the real helpers (combine_slices, unbroadcast, broadcast_arrays_minimal, categorical_ndarray, unique, index_lookup) '
             'are called on each; view_shape is compared with the result shapes of Views.tla; the chunk lists actually returned by '
             'iterate_chunks/find_chunk_shape for every shape and every limit or chunk shape are recorded and validated by TLC '
             'against the partition requirement (code -> spec trace validation).',
        note='Bounded but exhaustive inside the bound: lengths <= 6 (8 thorough), steps <= 3, shapes <= 3x3x3 (chunks: <= 4^3, 5^3 '
             'thorough), categorical arrays of length <= 4 over 3 symbols.',
        technique='TLA+ spec as enumerator/oracle + TLC trace validation of recorded outputs',
        design='7/C20'),
    'C14': dict(
        text='Derived.tla: TLC enumerates every expression tree over + - * / ** with stored, pixel, world and derived leaves and '
             'constants to depth 2 and computes integer-exact values for the + - * trees; each tree is installed as a derived '
             'attribute by arithmetic on identifiers, by a user-function ComponentLink and by a parsed text expression, and read '
             'on the whole dataset and under 5 views; it must equal the TLC values (exact trees) or element-wise scalar evaluation '
             '(trees with / or **). The dependency half (transitive removal, update_id keeps order and values) is decided by '
             'replaying the DataStruct.tla histories that involve derived attributes and, deeper (<= 5 operations), its dependency '
             'sub-protocol NextDeps (define derived attributes in any order, reorder the list, remove).',
        note='Bounded: 6 attribute leaves + 2 constants, depth <= 2 (26k trees; quick samples a third of the depth-2 trees). '
             'Float trees compared within rtol 1e-12 (array vs scalar pow differ by 1 ulp). update_id only for attributes without dependants.',
        technique='TLA+ spec as enumerator and exact oracle + replay into real Data; DataStruct history replay',
        design='7/C14'),
    'C15': dict(
        text='Coords.tla: TLC enumerates every invertible integer affine map in 1-3 dimensions over an entry set (diagonal, '
             'triangular, permuted, fully coupled) and computes the world value at every array position integer-exactly; on a real '
             'Data with AffineCoordinates the world attributes (whole array and 4 views), the automatically created pixel->world '
             'and world->pixel links, direct calls of the transformation and the round trip are compared.',
        note='Bounded: entries {-1,0,1} (thorough {-1,0,1,2}), one translation, shape (2,3,2) cut to the dimensionality. '
             'Inverse compared within 1e-9. astropy WCS objects are outside the quantifier.',
        technique='TLA+ spec as enumerator and exact oracle (TLC -dump) + replay into real Data',
        design='7/C15'),
    'C10': dict(
        text='Stats.tla: for every (shape, view, reduction axes, selection, positive filter) TLC computes the documented result '
             'shape and, per output cell, the set of source positions that reduce into it; for every histogram configuration '
             '(values, selection, range incl. reversed and data-coincident ends, bins, linear/log) the bin of every kept value with '
             'integer arithmetic. The harness computes min/max/sum/mean/median/percentiles from those positions with exact rational '
             'arithmetic and compares Data.compute_statistic for every statistic, two axis spellings and five chunk limits, and '
             'Data.compute_histogram plain and weighted.',
        note='Bounded: shapes (4),(2,3),(3,2),(2,2,3) (+ (2,2,2,2),(3,4) thorough), integer data with NaN/+inf/-inf, finite=True. '
             'A sum over nothing may be NaN or 0; interior bin-edge ties may all go up or all go down. Float accuracy on non-dyadic '
             'data, random_subset and dask are not covered.',
        technique='TLA+ spec as enumerator and index-bookkeeping oracle + exact rational statistics + replay into real Data',
        design='7/C10'),
    'C16': dict(
        text='Frb.tla: for reference/source datasets linked pixel-to-pixel by integer scale, offset and axis permutation (2-d and '
             '1-d sources, a second source with another map), TLC computes with integer arithmetic the nearest source pixel or OUT '
             'for every sample of every bounds tuple (scalar and ranged, partly and wholly outside) and enumerates every sequence of '
             'value/membership requests on either source under one cache identifier; each sequence runs on real linked Data through '
             'compute_fixed_resolution_buffer with and without cache_id and every buffer must equal the TLC result.',
        note='Bounded: 4 frame configurations, 5 bounds tuples, 40 requests, sequences <= 2 (3 thorough). Sample positions on a '
             '1/8-pixel grid away from rounding ties. Image-viewer layer states are not driven yet.',
        technique='TLA+ spec + TLC (history-independence requirement) + replay of request sequences into real FRB',
        design='7/C16'),
    'C01': dict(
        text='SubsetAlgebra.tla gives every selection tree (and/or/xor/not, many-way or, copies, edit modes) its truth table over the '
             'leaves and TLC checks that the semantics is a Boolean homomorphism and that no action changes the meaning of an existing '
             'tree; every history of <= 2 actions and random histories to depth 9-12 run on real SubsetState objects with leaves '
             'drawn from every elementary selection kind on 1-, 2- and 3-d datasets; after every action every tree of the pool and the '
             'edit subset are evaluated (whole and under views, twice, in alternating order) and compared with the truth table applied '
             'to the masks of the leaves evaluated alone.',
        note='Bounded: 3 leaves per history, pool <= 9 trees. Reference: each elementary selection evaluated alone on fresh objects. '
             'Kinds without a factory in harness/zoo.py are listed in the evidence as gaps.',
        technique='TLA+ spec + TLC (truth tables) + behaviour replay into real SubsetState objects',
        design='7/C01'),
    'C05': dict(
        text='Memo.tla: the abstract state holds only versions (data values, shape, parameters of each leaf, link); Evaluate has no '
             'effect and its required result is a function of the current versions; TLC enumerates every interleaving of evaluations '
             '(mask, mask under a view, attached subset, statistic, histogram, sampled statistic, linked value, histogram of a viewer '
             'layer) and mutations (replace values, refresh with same/new shape, move/edit/set leaf parameters incl. inside composites, '
             'add/replace/remove the link, viewer settings) over six tree shapes, attached and free; a history variable records every '
             'evaluation WITH the context it was made in, so that "evaluate, change, evaluate" is never merged with "change, evaluate"; '
             'each runs on long-lived real objects, and for every evaluation fresh, never evaluated objects are rebuilt from the '
             'abstract versions and compared.',
        note='Bounded: <= 2 evaluations and <= 2 mutations exhaustively (quick: a third of the histories per run, by the seed), random '
             'walks up to 4+4 in the thorough tier; 12 leaf kinds (incl. a selection on the other dataset\'s linked attribute) assigned '
             'round-robin. Two open known findings (KF-C05-1 in-place edits after evaluation, KF-C05-2 flood fill after value change).',
        technique='TLA+ spec + TLC (interleavings) + replay with fresh-rebuild oracle',
        design='7/C05'),
    'C08': dict(
        text='Geometry.tla: exact integer geometry (coordinates on a 1/20 lattice, angles with rational sine/cosine and angles within '
             '1e-10 of a quarter turn) of rectangles, rotated rectangles, circles, ellipses, rotated ellipses, annuli, x/y ranges and '
             'polygons (open, closed, concave); TLC computes the contained set and the exact-boundary band of every region after '
             'every action of short sequences (move, rotate, copy, save/restore, polygon approximation, transpose) and checks that '
             'moving translates the contained set; real ROI objects are driven through the same actions and contains() is compared '
             'off the band on 289 points in four array layouts (2-d, flat, broadcast views, Fortran order); center() is compared; '
             'Projected3dROI.contains3d is compared for integer projection matrices incl. > 10^6 points (several chunks).',
        note='Bounded: region menu of MC_Geometry.tla, 5 angle classes (12 thorough), sequences <= 2. Irrational angles and off-lattice '
             'parameters are not representable; to_polygon of curved shapes is not compared.',
        technique='TLA+ spec (exact geometry, equivariance as action property) + TLC + replay into real ROI objects',
        design='7/C08'),
    'C09': dict(
        text='RoiToSubset.tla (on Geometry.tla): for every region (x/y ranges with edges swept over the quarter grid, rectangles, '
             'circles, ellipses, polygons, category sets), every numeric/categorical axis pair and 1-4 categories TLC computes which '
             'plotted positions (category index on categorical axes) the region contains; roi_to_subset_state is applied on real '
             'data with scrambled rows and a missing value, and the mask of the returned state is compared off the boundary - one '
             'requirement for all seven conversion paths.',
        note='Bounded: about 2000 configurations; categories plotted in sorted-label order; elements are all combinations of positions.',
        technique='TLA+ spec (exact containment) + TLC enumeration + replay into roi_to_subset_state',
        design='7/C09'),
    'C02': dict(
        text='Session.tla: TLC enumerates session compositions - every elementary selection kind the harness can build (found by '
             'introspection of the tree under test, incl. region selections with pretransform chains) alone and nested under not / and / '
             'many-way or, every link helper class incl. the celestial ones, key joins of the three shapes (one-to-one, one key against '
             'several, several against several) - followed by one or two SaveLoad steps, and checks SaveLoad is the identity on the abstract '
             'state; each composition is built from real objects, written by GlueSerializer and restored by GlueUnSerializer, and the '
             'observable projection (labels, component order, values incl. a datetime column, codes and categories of a categorical '
             'column with explicit category order and an unused category, world values, attributes readable through links with their '
             'values, mask of every group on every dataset, styles, metadata) compared before/after each SaveLoad (idempotence = the '
             'second one). Failing loudly at save time is allowed and counted; failing at load time is a violation.',
        note='Bounded: one group and one link helper per session (two groups and pairs of kinds in the thorough tier), 1-d and 2-d '
             'datasets, include_data=True (saving by reference is in C19). SubsetState classes without a factory are listed in the evidence.',
        technique='TLA+ spec + TLC (compositions) + replay through the real serializer with a behavioural projection',
        design='7/C02'),
    'C12': dict(
        text='Versions.tla: (a) VersionedDict as a state machine - every sequence of <= 5 Set/Get/GetVersion/Contains/Delete calls over 2 '
             'keys and versions 0..3 is replayed into the real class, comparing results and the whole stored state after every call; '
             '(b) the saver/loader registries and state_path_patches.txt of the current tree are extracted and handed to TLC as '
             'constants: versions consecutive from 1, a loader for every saver version, the rename walk terminates, in-package targets '
             'import, no entry captures a concrete class this package still defines and writes (each clause evaluated and reported on '
             'its own); (c) VersionContent.tla states which features each (Data version, DataCollection version) pair carries (style, '
             'meta, uuid, one-to-one and tuple key joins, derived components, links between datasets, link helpers, subset groups, the '
             'group counter, coordinates, categorical components, stand-alone subsets): for every registered pair and every feature set '
             'in the bound a collection exhibiting the features is written with that pair\'s savers, loaded by the normal unserializer '
             'and every carried feature observed unchanged.',
        note='Feature sets: quick |F| <= 2 or >= 12 of 13, thorough all 8192. Observations are behavioural (values, masks through '
             'joins and links, labels of the next group, ...). One open known finding (KF-C12-1, four captured class paths).',
        technique='TLA+ spec + TLC over constants generated from the tree + replay into VersionedDict / pinned-version serializer',
        design='7/C12'),
    'C19': dict(
        text='Export.tla: for every (table or image, column set of float/int/text kinds, whole dataset or empty/proper/full subset, '
             'format) TLC computes whether the format can represent the configuration and what must come back (components in order, '
             'selected rows, preserved pixels); the registered exporters write real files, load_data reads them, and a session saved '
             'with include_data=False on the imported dataset is restored; every stage is compared (names, order, values with NaN, '
             'text, row selection, blanked pixels).',
        note='Bounded: 4 rows / 2x2 pixels, 6 column sets, 5 formats (CSV, FITS table, VO table, HDF5, gridded FITS). Codec fidelity for '
             'arbitrary values is not modelled. One open known finding (KF-C19-1).',
        technique='TLA+ spec as enumerator/oracle of what is carried + replay through real exporters and readers',
        design='7/C19'),
    'C18': dict(
        text='Viewer.tla part 1: the layer set a viewer must hold (dataset layers, one layer per group subset and per stand-alone '
             'subset) under collection operations, subset groups, stand-alone subsets, add/remove data on the viewer, removal and '
             'addition of single layers, hub delay blocks and save+restore of the viewer; TLC enumerates every history of <= 5 '
             'operations over two datasets (base Viewer, exhaustively), every history of <= 6 operations over one dataset (each of '
             'the four matplotlib viewers, headless Agg) plus samples and random walks; viewer.layers / viewer.state.layers are '
             'compared with the required set and with each other after every step, every selection property of the viewer state must '
             'select one of its choices and offer nothing of datasets outside the collection, the image viewer must offer the axes of '
             'its reference dataset and select two distinct ones. Part 2: ComponentIDComboHelper - choices and selection as a '
             'function of the datasets\' ordered attributes, their kinds and the kind filters (every history of <= 4 operations). '
             'Part 3 (DataPickers.tla): DataCollectionComboHelper and ManualDataComboHelper follow the collection (append, remove, '
             're-append, relabel, manual append/remove, selections, hub delay blocks; every history of <= 5 operations). In the other '
             'direction every Viewer object created by the repository\'s own tests is recorded by an external tracer (calls on the '
             'viewer and on its collection, layers projected after each call) and validated by TLC against Trace_Viewer.tla, which '
             'reuses the layer effects of Viewer.tla; impossible traces (missing, duplicate, stale layer, ...) must be rejected.',
        note='Bounded: 1-3 datasets, 1-3 groups; viewer operations only outside hub delay blocks; sessions with stand-alone subsets are '
             'not saved/restored in the model (a restore turns them into groups by design); a picker may select any remaining '
             'choice when its selection disappears. One open known finding (KF-C18-1). Qt/Jupyter front-ends are other repositories.',
        technique='TLA+ spec + TLC; behaviour replay into real viewers and combo helpers (spec->code) and TLC trace validation of recorded viewers (code->spec)',
        design='7/C18'),
}

NOT_APPLICABLE = {}

ALL = ['C%02d' % i for i in range(1, 21)]


def main():
    checks = []
    for pid in sorted(CHECKS):
        c = CHECKS[pid]
        checks.append({
            'property_id': pid,
            'quick_cmd': './check %s --tier quick' % pid,
            'thorough_cmd': './check %s --tier thorough' % pid,
            'evidence_file': '/verif/evidence/%s.json' % pid,
            'replay_cmd_template': './check %s --replay {path}' % pid,
            'engine': 'tla-conformance',
            'level_claimed': {'category': 'model_checking', 'text': c['text'], 'design_ref': 'DESIGN.md section ' + c['design']},
            'level_note': c['note'],
            'technique': c['technique'],
        })
    na = []
    for pid in ALL:
        if pid in CHECKS:
            continue
        na.append({'property_id': pid,
                   'reason': NOT_APPLICABLE.get(pid, 'not claimed yet: the specification and conformance harness for this '
                                                     'property are still being built (see DESIGN.md section 12)')})
    m = {
        'version': 1,
        'setup_cmd': './setup.sh',
        'hooks': {
            'guard': 'GLUE_VERIF_TRACE',
            'enable': 'no source hooks: the tracer (harness/glue_tracer.py) wraps glue methods from outside when GLUE_VERIF_TRACE=1; '
                      'checks import glue straight from /repo (VERIF_REPO) so nothing is built',
            'baseline_off_cmd': 'cd /repo && /venv/bin/python -m pytest -ra -q -p no:cacheprovider --timeout=900 --continue-on-collection-errors',
            'source_commits': [],
            'add_only': True,
        },
        'engines': [
            {'name': 'tla-conformance', 'path': '/verif/check',
             'serves_properties': sorted(CHECKS),
             'kind_free_text': 'explicit TLA+ specifications in /verif/specs checked by TLC (E0); TLC-generated behaviours replayed '
                               'into the real glue objects (E1); traces recorded from the real code validated by TLC against trace '
                               'specifications (E2)'}],
        'checks': checks,
        'not_applicable': na,
        'notes': 'Known findings: /verif/known_findings.json. Design: /verif/DESIGN.md.',
    }
    with open(os.path.join(ROOT, 'MANIFEST.json'), 'w') as f:
        json.dump(m, f, indent=1)
        f.write('\n')


if __name__ == '__main__':
    main()
